#!/usr/bin/env python3
"""Write seeded/<id>/meta.json from the sub-agent's own meta (agent_meta.json), my confirmation logs and the check results.
The RESULTS table is maintained by hand from tools/seedcheck.sh runs (see DESIGN.md section 13)."""
import json
import os
import re

BASE = '/verif/seeded'
# seed id -> (property, [(check property, tier, outcome, which obligation reported it)])
RESULTS = {
    "C09-bilinearity-and-instead-of-or": ("C09", [("C09", "quick", "VIOLATION", "kani alg::n2::bilinearity_ clause C09:bilinearity_ok_iff_law")]),
    "C11-zip-longest-left-ended-right-pending": ("C11", [("C11", "quick", "VIOLATION", "kani pull::zip_longest::vk_harness::zip_longest_step")]),
    "C11-cross-singleton-item-lost-on-singleton-pending": ("C11", []),
    "C12-fold-keyed-refinalize-duplicates": ("C12", [("C12", "quick", "missed", "FoldKeyed is only in the thorough tier (real std HashMap, one key)")]),
    "C13-join-probe-before-build-duplicates": ("C13", [("C13", "quick", "VIOLATION", "kani symmetric_hash_join_history_set_trace clause C13:emitted_plus_queued_equals_join_size")]),
    "C14-lazy-sink-first-item-lost-on-pending": ("C14", [("C14", "quick", "VIOLATION", "kani lazy::vk_harness::lazy_sink_step")]),
    "C14-flat-map-buffer-taken-before-ready": ("C14", []),
    "C15-merge-source-cursor-fixup-live-cursor": ("C15", [("C15", "quick", "VIOLATION", "kani merge_one_poll_n4 (4 clauses; needs >= 4 sources)")]),
    "C02-tombstone-map-merge-flag-lost": ("C02", []),
    "C03-optionset-is-empty-inverted": ("C03", []),
    "C04-dompair-incomparable-keys-value-not-merged": ("C04", []),
    "C10-counted-hash-set-eq-ignores-counts": ("C10", []),
}
EXTRA = '/verif/seeded/results_extra.json'
if os.path.exists(EXTRA):
    for k, v in json.load(open(EXTRA)).items():
        RESULTS[k] = (RESULTS[k][0], RESULTS[k][1] + [tuple(x) for x in v])

for sid, (prop, checks) in RESULTS.items():
    d = os.path.join(BASE, sid)
    if not os.path.isdir(d):
        continue
    am = {}
    p = os.path.join(d, 'agent_meta.json')
    if os.path.exists(p):
        try:
            am = json.load(open(p))
        except Exception:
            am = {}
    def last(name):
        f = os.path.join(d, name)
        if not os.path.exists(f):
            return None
        t = open(f).read()
        m = re.findall(r"test result: .*", t)
        return m[-3:] if m else t[-200:]
    meta = {
        "breaks_property": prop,
        "summary": am.get("summary", ""),
        "needs_to_manifest": am.get("needs_to_manifest", ""),
        "origin": "independent sub-agent given only the property text and a scratch git worktree of /repo (nothing from /verif)",
        "confirmed_by_me": {
            "how": "tools/confirm_seed.sh in the sub-agent's worktree: demo with the change must fail, demo with the patch reversed must pass, "
                   "the crate's existing tests with the patch alone must pass",
            "demo_with_change": last("demo_with.log"),
            "demo_without_change": last("demo_without.log"),
            "existing_tests_with_change": last("existing.log"),
        },
        "checks_run": [{"property": c[0], "tier": c[1], "outcome": c[2], "reported_by": c[3],
                        "how": f"tools/seedcheck.sh {sid} {c[0]} {c[1]} (scratch copy of /repo with patch.diff applied, HVX_REPO pointing at it)"}
                       for c in checks],
    }
    with open(os.path.join(d, 'meta.json'), 'w') as f:
        json.dump(meta, f, indent=1)
print("wrote", len(RESULTS))
