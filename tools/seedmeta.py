#!/usr/bin/env python3
"""Write seeded/<id>/meta.json from the sub-agent's own meta (agent_meta.json), my confirmation logs and the check results.
The RESULTS table is maintained by hand from tools/seedcheck.sh runs (see DESIGN.md section 13)."""
import json
import os
import re

BASE = '/verif/seeded'
# seed id -> (property, [(check property, tier, outcome, which obligation reported it)])
RESULTS = {
    "C09-bilinearity-and-instead-of-or": ("C09", [("C09", "quick", "VIOLATION", "kani vk_lat alg::n2::bilinearity_ clause C09:bilinearity_ok_iff_law")]),
    "C11-zip-longest-left-ended-right-pending": ("C11", [("C11", "quick", "VIOLATION", "kani ov_pipes pull::zip_longest::vk_harness::zip_longest_step clause C11:zip_longest_ends_iff_both_ended_and_nothing_buffered")]),
    "C11-cross-singleton-item-lost-on-singleton-pending": ("C11", [("C11", "quick", "VIOLATION", "kani ov_pipes pull::cross_singleton::vk_harness::cross_singleton_step clause C11:cross_singleton_no_items_consumed_before_singleton")]),
    "C12-fold-keyed-refinalize-duplicates": ("C12", [("C12", "quick", "missed", "first rounds: FoldKeyed was only in the thorough tier (real std HashMap, one key, ~100 s per harness); the quick tier runs it now and reports the same VIOLATION"),
                                                     ("C12", "thorough", "VIOLATION", "kani ov_pipes push::fold_keyed::vk_slow::fold_keyed_finalize_history_trace clause C12:never_sends_after_finalizing")]),
    "C13-join-probe-before-build-duplicates": ("C13", [("C13", "quick", "VIOLATION", "kani ov_pipes symmetric_hash_join_history_set_trace clause C13:emitted_plus_queued_equals_join_size")]),
    "C14-lazy-sink-first-item-lost-on-pending": ("C14", [("C14", "quick", "VIOLATION", "kani ov_sink lazy::vk_harness::lazy_sink_step clause C14:lazy_sink_first_item_kept_until_delivered")]),
    "C14-flat-map-buffer-taken-before-ready": ("C14", [("C14", "quick", "VIOLATION", "kani ov_sink flat_map::vk_harness::flat_map_sink_drain_loop clause C14:flat_map_buffer_empty_only_after_everything_was_delivered")]),
    "C15-merge-source-cursor-fixup-live-cursor": ("C15", [("C15", "quick", "VIOLATION", "kani vk_merge merge_one_poll_n3/n4 clauses C15:cursor_zero_when_empty, C15:cursor_in_range, C15:cursor_designates_next_survivor_after_last_polled")]),
    "C02-tombstone-map-merge-flag-lost": ("C02", [("C02", "thorough", "VIOLATION", "kani vk_lat coll3::tombstone_map_merge clause C02:changed_iff_value_differs")]),
    "C03-optionset-is-empty-inverted": ("C03", [("C03", "quick", "VIOLATION", "kani vk_lat coll::set_bot_every_representation clause C03:set_union_is_bot_iff_empty")]),
    "C04-dompair-incomparable-keys-value-not-merged": ("C04", [("C04", "quick", "VIOLATION", "kani vk_lat twins::dompair_incomparable_keys clause C04:dompair_incomparable_keys_merges_values")]),
    "C05-fst-tombstone-extend-drops-overlapping-batch": ("C05", [("C05", "thorough", "missed", "the change is inside tombstone.rs's FstTombstoneSet adapter (fst crate), which the C05 claim names as NOT covered: the checks run the merge algorithm on harness sets")]),
    "C07-ght-keyed-bimorphism-first-match-only": ("C07", [("C07", "thorough", "missed", "the change is in ght/lattice.rs (GhtNodeKeyedBimorphism); GHT is outside both verifiers' reach (C08 N/A) and the C07 claim lists the ght bimorphisms as NOT covered")]),
    "C01-withtop-merge-collapses-inner-top": ("C01", [("C01", "quick", "VIOLATION", "verus lat_wrap `impl Merge<WithTop<Other>> for WithTop<Inner>::merge` clause final(self).abs() == old(self).abs().join(other.abs()); kani vk_lat twins withtop_max/withtop_min/withtop_withbot/withbot_withtop/pair_bt ::aci clauses C01:commutative, C01:associative (11 violations)")]),
    "C01-tombstone-set-lattice-from-swapped": ("C01", [("C01", "quick", "missed", "no harness called SetUnionWithTombstones::lattice_from and the quick C01 twins do not nest the tombstone set under a container"),
                                                        ("C04", "quick", "missed", "first run: same reason; the harness coll3::tombstone_set_lattice_from was added because of this seed"),
                                                        ("C04", "quick", "VIOLATION", "kani vk_lat coll3::tombstone_set_lattice_from clause C04:tombstone_set_lattice_from_keeps_live_items")]),
    "C10-column-multiset-drain-yields-nothing": ("C10", [("C10", "quick", "VIOLATION", "kani vk_var harness::column_multiset_drain_reuse")]),
    "C06-map-union-atomize-one-atom-per-entry": ("C06", [("C06", "thorough", "UNDECIDED", "first run: the whole-value atomize harnesses timed out (they were later removed from every tier)"),
                                                       ("C06", "quick", "VIOLATION", "kani vk_lat coll3::atomize_map_union_any_value_iterator (added because of this seed) clauses C06:map_union_atoms_are_exactly_key_times_value_atoms, C06:map_union_yields_every_value_atom_under_its_key")]),
    "C36-merge-ordered-hook-fast-path-swapped": ("C36", [("C36", "quick", "VIOLATION", "kani vk_sim sim::runtime::harness::merge_ordered_inline_0_2 clause C36:decision_conserves_item_count (replayed natively)")]),
    "C36-run-hooks-trivial-decision-overwrites-manual": ("C36", [("C36", "quick", "VIOLATION", "kani vk_sim sim::compiled::harness::run_hooks_n1/n2/n3 clause C36:run_hooks_decides_each_undecided_hook_once")]),
    "C11-chain-pending-first-treated-as-ended": ("C11", [("C11", "quick", "VIOLATION", "kani ov_pipes pull::chain::vk_harness::chain_step clause C11:chain_polls_second_exactly_when_first_has_ended (the change adds a field to Chain; the harness builds it with Chain::new, so it still compiles)")]),
    "C11-cross-singleton-item-pulled-before-singleton": ("C11", [("C11", "quick", "VIOLATION", "kani ov_pipes cross_singleton_step clause C11:cross_singleton_no_items_consumed_before_singleton")]),
    "C11-zip-size-hint-buffer-on-wrong-side": ("C11", [("C11", "quick", "VIOLATION", "kani ov_pipes pull::zip::vk_harness::zip_size_hint clause C11:zip_size_hint_brackets_remaining")]),
    "C12-persist-replay-index-advanced-before-ready": ("C12", [("C12", "quick", "VIOLATION", "kani ov_pipes push::persist::vk_harness::persist_push_ready_loop clause C12:persist_replay_index_counts_replayed_items")]),
    "C12-fold-keyed-flush-marker-reset-on-pending-finalize": ("C12", [("C12", "quick", "VIOLATION", "(since FoldKeyed moved into the quick tier) same obligation as thorough"),
                                                                      ("C12", "thorough", "VIOLATION", "kani ov_pipes push::fold_keyed::vk_slow::fold_keyed_finalize_history_trace clause C12:never_sends_after_finalizing")]),
    "C14-flat-map-pair-taken-before-ready": ("C14", [("C14", "quick", "VIOLATION", "kani ov_sink flat_map_sink_drain_loop clause C14:flat_map_buffer_empty_only_after_everything_was_delivered")]),
    "C14-unzip-ready-when-only-one-sink-ready": ("C14", [("C14", "quick", "VIOLATION", "kani ov_sink unzip::vk_harness::unzip_sink_step clause C14:unzip_ready_iff_both_ready")]),
    "C15-merge-source-early-return-skips-cleanup": ("C15", [("C15", "quick", "VIOLATION", "kani vk_merge merge_one_poll_n2/n3/n4 clauses C15:all_entries_some_after_poll, C15:ended_sources_and_only_those_removed (6 violations)")]),
    "C13-join-early-end-skips-rhs": ("C13", [("C13", "quick", "VIOLATION", "kani ov_pipes symmetric_hash_join_history_set_trace / _multiset_trace clause C13:join_ends_only_when_both_sides_ended")]),
    "C13-half-set-state-build-occupied-returns-false": ("C13", [("C13", "thorough", "missed", "first run: the changed branch (a second value for an existing key) needs a second table operation on the real HalfSetJoinState, outside CBMC's reach on the real hashbrown table"),
                                                                ("C13", "quick", "VIOLATION", "kani vk_join (added because of this seed: the real state files over contract doubles of the hash map and SmallVec) pull::half_join_state::harness::half_set_builds_b2_same_key clause C13:build_reports_whether_the_pair_is_new_for_sets_and_always_true_for_multisets")]),
    "C17-union-find-path-halving-returns-grandparent": ("C17", [("C17", "quick", "UNDECIDED", "first run: find was rewritten (iterative path halving): the anchors of the inserted Verus proof are gone, exit 2"),
                                                                ("C17", "quick", "VIOLATION", "kani vk_uf (bounded twin over a SecondaryMap contract double, added because of this seed) harness::uf_same_set_is_closure_n3 / uf_find_is_canonical_n3 / uf_union_keeps_first_representative_n3 (7 violations, with replayed inputs); the Verus unit still reports undecided")]),
    "C17-subgraph-merge-window-excludes-start": ("C17", [("C17", "quick", "missed", "SubgraphMerge::try_merge is in the part of C17 the claim lists as NOT covered")]),
    "C02-map-union-merge-flag-lost-at-staging-flush": ("C02", [("C02", "quick", "UNDECIDED", "the patched merge contains an 8-slot staging loop: the map-merge harnesses hit their unwinding assertion (unwind 8) -> exit 2; the defect needs >= 8 new keys in one merge, beyond the harness bound of 2 entries")]),
    "C02-withtop-merge-inner-top-absorbs": ("C02", [("C02", "quick", "VIOLATION", "kani vk_lat twins withtop_max / withbot_withtop / pair_bt ::changed clause C02:changed_iff_other_not_below (5 violations); the Verus unit lat_wrap no longer matches the impl header (added Inner: IsTop bound)")]),
    "C03-set-union-cmp-greater-arm-checks-other-against-itself": ("C03", [("C03", "quick", "VIOLATION", "kani vk_lat coll::set_cmp_* (array_option, array_vecset1, tiny_singleton, ...) clause C03:set_union_partial_cmp_is_subset_order (5 violations)")]),
    "C03-option-map-get-ignores-key": ("C03", [("C03", "quick", "VIOLATION", "kani vk_lat coll::map_cmp_small_option_option / _option_singleton / _singleton_option clause C03:map_union_partial_cmp_is_keywise_order_bottoms_invisible (the cheap cross-representation MapUnion comparisons added to the quick tier a few hours earlier)")]),
    "C04-dompair-incomparable-keys-value-replaced": ("C04", [("C04", "quick", "VIOLATION", "kani vk_lat twins::dompair_incomparable_keys clause C04:dompair_incomparable_keys_merges_values")]),
    "C09-right-distributes-checks-the-left-law": ("C09", [("C09", "quick", "VIOLATION", "kani vk_lat alg::n2::distributes_ clause C09:right_distributes_ok_iff_law")]),
    "C09-field-nonzero-inverse-zero-one-swapped": ("C09", [("C09", "quick", "VIOLATION", "verus alg_compose `field` postcondition (Ok <==> commutative_ring_laws && nonzero_inverse_law(items, g, one, zero, inverse_g)); kani alg::c2 composite")]),
    "C09-cost-mul-zero-fast-path-breaks-identity": ("C09", [("C09", "quick", "VIOLATION", "verus alg_semiring `impl Multiplication<Cost> for Cost::mul` clause final(self).m() == Self::times(old(self).m(), other.m())")]),
    "C36-top-level-order-hook-item-lost-on-hold-back": ("C36", [("C36", "quick", "VIOLATION", "kani vk_sim sim::runtime::harness::top_level_order_n1 / _n2 clause C36:decision_conserves_item_count")]),
    "C36-run-hooks-trivial-manual-decision-counts-as-progress": ("C36", [("C36", "quick", "not reported", "the changed branch only runs when a hook enters run_hooks with a pre-existing TRIVIAL decision; no code in this tree creates one (every decision is made and consumed inside one run_hooks call), so no reachable history violates the property -- the harness's liveness clause excludes exactly that start state (DESIGN.md 14.1), and the sub-agent's own demo had to pre-set `to_release` by hand")]),
    "C10-counted-hash-set-eq-ignores-counts": ("C10", [("C10", "quick", "missed", "first rounds: VariadicCountedHashSet is hashbrown-backed, outside CBMC's reach beyond one tuple; quick still misses it (the equality harness takes 5-9 min)"),
                                                       ("C10", "thorough", "VIOLATION", "kani vk_var (variadic_collections.rs extracted over a hashbrown contract double, added later) extracted::hash_harness::slow_counted_set_eq_is_multiset_equality clause C10:counted_set_equality_is_multiset_equality")]),
    "C05-roaring-extend-append-fast-path-drops-tombstone": ("C05", [("C05", "quick", "missed", "first state: tombstone.rs's adapters were outside the C05 claim (the merge algorithms run over harness sets)"),
                                                                     ("C05", "quick", "VIOLATION", "kani vk_tomb tombstone::harness::roaring_tombstones_extend_is_union_any_order (unit built because of this seed: RoaringTombstoneSet spliced over a RoaringTreemap contract double)")]),
    "C05-fst-extend-duplicate-tombstone-toggles": ("C05", [("C05", "quick", "missed", "the change is inside FstTombstoneSet's Extend impl (fst crate), which the C05 claim names as NOT covered")]),
    "C06-map-union-atomize-key-moved-into-final-atom": ("C06", [("C06", "quick", "VIOLATION", "kani vk_lat coll3::atomize_map_union_any_value_iterator clauses C06:map_union_atoms_are_exactly_key_times_value_atoms, C06:map_union_yields_every_value_atom_under_its_key")]),
    "C06-with-bot-atomize-size-hint-early-out": ("C06", [("C06", "quick", "missed", "first run: no WithBot::atomize harness with a Some value was within CBMC's reach"),
                                                         ("C06", "quick", "VIOLATION", "kani vk_lat coll3::atomize_with_bot_any_inner_iterator (added because of this seed) clause C06:with_bot_yields_every_inner_atom_and_nothing_iff_bottom")]),
    "C07-keyed-bimorphism-smaller-side-break": ("C07", [("C07", "quick", "missed", "first run: KeyedBimorphism was only harnessed with one entry per side"),
                                                        ("C07", "quick", "VIOLATION", "kani vk_lat coll3::keyed_bimorphism_multi_a3_b2_first_of_b_unmatched (added because of this seed) clause C07:keyed_bimorphism_keeps_exactly_the_common_keys")]),
    "C07-ght-keyed-bimorphism-map-while": ("C07", [("C07", "quick", "missed", "the change is in ght/lattice.rs (GhtNodeKeyedBimorphism); GHT is outside both verifiers' reach (C08 N/A) and the C07 claim lists the ght bimorphisms as NOT covered")]),
    "C10-counted-eq-same-keys-different-multiplicities": ("C10", [("C10", "quick", "missed", "counted-set equality is a thorough-tier obligation (minutes of CBMC)"),
                                                                   ("C10", "thorough", "UNDECIDED", "a three-insert equality harness with SYMBOLIC tuples, added because of this seed, timed out (900 s, loaded machine): exit 2; replaced by the concrete-tuple harnesses below"),
                                                                   ("C10", "quick", "VIOLATION", "kani vk_var hash_harness::counted_set_contract_eq_multiplicities_differ (concrete tuples, three inserts per side; 3 s) clause C10:counted_set_equality_is_multiset_equality")]),
    "C10-column-extend-len-from-size-hint": ("C10", [("C10", "quick", "missed", "first run: extend was only fed arrays (exact size_hint)"),
                                                     ("C10", "quick", "VIOLATION", "kani vk_var harness::column_multiset_extend_any_size_hint (added because of this seed: havoc iterator) clause C10:extend_len_counts_every_item_whatever_size_hint_said")]),
}
EXTRA = '/verif/seeded/results_extra.json'
if os.path.exists(EXTRA):
    for k, v in json.load(open(EXTRA)).items():
        RESULTS[k] = (RESULTS[k][0], RESULTS[k][1] + [tuple(x) for x in v])

for sid, (prop, checks) in RESULTS.items():
    d = os.path.join(BASE, sid)
    if not os.path.isdir(d):
        continue
    am = {}
    p = os.path.join(d, 'agent_meta.json')
    if os.path.exists(p):
        try:
            am = json.load(open(p))
        except Exception:
            am = {}
    def last(name):
        f = os.path.join(d, name)
        if not os.path.exists(f):
            return None
        t = open(f).read()
        m = re.findall(r"test result: .*", t)
        return m[-3:] if m else t[-200:]
    meta = {
        "breaks_property": prop,
        "summary": am.get("summary") or am.get("what_changed", ""),
        "needs_to_manifest": am.get("needs_to_manifest", ""),
        "origin": "independent sub-agent given only the property text and a scratch git worktree of /repo (nothing from /verif)",
        "confirmed_by_me": {
            "how": "tools/confirm_seed.sh in the sub-agent's worktree: demo with the change must fail, demo with the patch reversed must pass, "
                   "the crate's existing tests with the patch alone must pass",
            "demo_with_change": last("demo_with.log"),
            "demo_without_change": last("demo_without.log"),
            "existing_tests_with_change": last("existing.log"),
        },
        "checks_run": [{"property": c[0], "tier": c[1], "outcome": c[2], "reported_by": c[3],
                        "how": f"tools/seedcheck.sh {sid} {c[0]} {c[1]} (scratch copy of /repo with patch.diff applied, HVX_REPO pointing at it)"}
                       for c in checks],
    }
    with open(os.path.join(d, 'meta.json'), 'w') as f:
        json.dump(meta, f, indent=1)
print("wrote", len(RESULTS))
