#!/usr/bin/env python3
"""one-off registry edit (kept for the record): tiers for the collection lattice harnesses"""
p = '/verif/hvx/registry.py'
s = open(p).read()
import re
start = s.index('PROPS = {')
end = s.index('PROPS["C09"]')
new = '''PROPS = {
    "C01": [("verus", "lat_ord"), ("verus", "lat_wrap"), ("verus", "lat_pair"), ("verus", "lat_dom"), ("verus", "lat_set"),
            ("kani", "vk_lat", ["::aci", "point_u8", "coll::set_aci", "coll::set_merge", "coll::map_merge_option", "coll::map_merge_singleton", "coll::map_merge_vecmap", "coll2::vec_union_merge", "coll3::tombstone_set_merge", "coll3::tombstone_set_lattice_from", "::from"], ("quick",)),
            ("kani", "vk_lat", ["::aci", "point_u8", "coll::set_aci", "coll::set_merge", "coll::map_merge", "coll2::vec_union_merge", "coll3::tombstone_set_merge", "coll3::tombstone_set_lattice_from", "::from", "coll3::tombstone_map_merge", "coll::map_aci_small", "coll::map_comm_idem", "coll2::vec_union_aci",
                                "coll2::union_find_merge"], ("thorough",))],
    "C02": [("verus", "lat_ord"), ("verus", "lat_wrap"), ("verus", "lat_pair"), ("verus", "lat_dom"), ("verus", "lat_set"),
            ("kani", "vk_lat", ["::changed", "point_u8", "coll::set_merge", "coll::map_merge_option", "coll::map_merge_singleton", "coll::map_merge_vecmap",
                                "coll2::vec_union_merge", "coll3::tombstone_set_merge", "coll3::tombstone_map_merge_one_entry", "dompair_incomparable_keys"], ("quick",)),
            ("kani", "vk_lat", ["::changed", "coll3::tombstone_set_merge", "coll3::tombstone_map_merge", "dompair_incomparable_keys", "point_u8", "coll::set_merge", "coll::map_merge", "coll2::vec_union_merge",
                                "coll2::union_find_union", "coll2::union_find_merge"], ("thorough",))],
    "C03": [("verus", "lat_ord"), ("verus", "lat_wrap"), ("verus", "lat_pair"), ("verus", "lat_dom"), ("verus", "lat_set"),
            ("kani", "vk_lat", ["::order", "::bot", "::top", "c03_withbot_unit_is_top", "c03_set_union_full_bool_is_top", "point_u8", "coll::set_cmp", "coll::set_bot_top_from",
                                "coll::map_bot_top_from", "coll::set_bot_every", "coll::map_cmp_small", "coll2::vec_union_cmp", "coll3::tombstone_set_cmp"], ("quick",)),
            ("kani", "vk_lat", ["::order", "::bot", "::top", "c03_withbot_unit_is_top", "c03_set_union_full_bool_is_top", "point_u8", "coll::set_cmp", "coll::set_bot_top_from",
                                "coll::map_bot_top_from", "coll::set_bot_every", "coll::map_cmp", "coll2::vec_union_cmp", "coll2::union_find_cmp", "coll3::tombstone_set_cmp"], ("thorough",))],
    "C04": [("verus", "lat_ord"), ("verus", "lat_wrap"), ("verus", "lat_pair"), ("verus", "lat_dom"), ("verus", "lat_set"),
            ("kani", "vk_lat", ["::from", "::aci", "point_u8", "dompair_incomparable_keys", "coll3::tombstone_set_lattice_from", "coll3::tombstone_set_merge", "coll::set_merge", "coll::set_bot_top_from", "coll::map_merge_option",
                                "coll::map_merge_singleton", "coll::map_merge_vecmap", "coll::map_bot_top_from", "coll2::vec_union_merge", "coll2::vec_union_cmp"], ("quick",)),
            ("kani", "vk_lat", ["::from", "::aci", "point_u8", "dompair_incomparable_keys", "coll3::tombstone_set_lattice_from", "coll3::tombstone_set_merge", "coll::set_merge", "coll::set_bot_top_from", "coll::map_merge",
                                "coll::map_bot_top_from", "coll2::vec_union_merge", "coll2::vec_union_cmp", "coll2::union_find_union",
                                "coll2::union_find_merge"], ("thorough",))],
}

'''
s = s[:start] + new + s[end:]
if 'coll2::vec' not in s.split('KANI_UNITS = {')[1].split('# property')[0]:
    s = s.replace('''                    r"^alg::": ''', '''                    r"^coll2::vec": "vectors of length <= 2 over Max<u8>",
                    r"^coll2::union_find": "item domain {0,1,2}, reachable states after <= 2 unions from empty, receiver TinyMap",
                    r"^alg::": ''')
open(p, 'w').write(s)
p = '/verif/contracts/kani/vk_lat/src/lib.rs'
s = open(p).read()
if 'coll2' not in s:
    s += "#[cfg(kani)]\npub(crate) mod coll2;\n"
open(p, 'w').write(s)
print("ok")
