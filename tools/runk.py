#!/usr/bin/env python3
"""tools/runk.py <dep-unit> <filter>... : sync a dep-mode harness crate and run the matching harnesses, print a table"""
import sys, re
sys.path.insert(0, '/verif/hvx')
import kani_unit, registry
unit = sys.argv[1]
u = registry.KANI_UNITS[unit]
dst = f'/verif/build/kani/{unit}'
kani_unit._sync_crate('/verif/' + u['crate'], dst)
r = kani_unit.run_kani(dst, sys.argv[2:], jobs=14, timeout=3000)
print(round(r['wall_s'], 1), r['summary'])
for n, h in sorted(r['harnesses'].items()):
    print(n, h['status'], h['time_s'], [f['desc'] for f in h['failed']])
if not r['harnesses']:
    print('\n'.join(l for l in r['raw_tail'].split('\n') if re.search(r'^error|-->', l))[:4000])
