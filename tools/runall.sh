#!/bin/bash
# tools/runall.sh <quick|thorough> [ids...] : run the registered checks one after the other, print exit code and wall time per property
T="${1:-quick}"; shift
IDS="$@"; [ -z "$IDS" ] && IDS=$(python3 -c "import json;print(' '.join(c['property_id'] for c in json.load(open('/verif/MANIFEST.json'))['checks']))")
for p in $IDS; do
  s=$(date +%s)
  out=$(cd /verif && ./check $p --tier $T 2>&1); code=$?
  e=$(date +%s)
  echo "$p tier=$T exit=$code wall=$((e-s))s :: $(echo "$out" | grep -E '^(OK|VIOLATION|UNDECIDED|KNOWN-FINDING)' | cut -c1-160 | tr '\n' '|')"
done
