#!/bin/bash
# tools/confirm_seed2.sh <clean worktree> <dir with patch.diff+demo.rs+agent_meta.json> <crate> <demo destination (repo-relative)> <seed id> [existing-test args]
# Confirms a seeded change whose demo is an integration test file, then stores it under /verif/seeded/<seed id>/.
#   1. demo FAILS with the change   2. demo PASSES without it   3. the crate's existing tests pass with the change alone (demo absent)
W="$1"; O="$2"; CRATE="$3"; DEST="$4"; ID="$5"; EXTRA="${6:-}"
cd "$W" || exit 9
export CARGO_TARGET_DIR="$W/target" CARGO_NET_OFFLINE=true
L=$(mktemp -d /tmp/confirm2.XXXXXX)
T=$(basename "$DEST" .rs)
git checkout -q -- . ; git apply "$O/patch.diff" || { echo "patch does not apply"; exit 8; }
mkdir -p "$(dirname "$DEST")"; cp "$O/demo.rs" "$DEST"
cargo test -p "$CRATE" --offline --test "$T" > "$L/demo_with.log" 2>&1; R1=$?
git apply -R "$O/patch.diff"
cargo test -p "$CRATE" --offline --test "$T" > "$L/demo_without.log" 2>&1; R2=$?
rm -f "$DEST"; git apply "$O/patch.diff"
cargo test -p "$CRATE" --offline $EXTRA > "$L/existing.log" 2>&1; R3=$?
git checkout -q -- .
echo "demo with change exit=$R1 (must be !=0); without exit=$R2 (must be 0); existing tests with change exit=$R3 (must be 0)"
grep -E "^test result" "$L/existing.log" | head -6
if [ $R1 -ne 0 ] && [ $R2 -eq 0 ] && [ $R3 -eq 0 ]; then
  D=/verif/seeded/$ID; mkdir -p "$D"
  cp "$O/patch.diff" "$O/demo.rs" "$O/agent_meta.json" "$D/"; [ -f "$O/INSTRUCTIONS.txt" ] && cp "$O/INSTRUCTIONS.txt" "$D/"
  for f in demo_with demo_without existing; do tail -c 6000 "$L/$f.log" > "$D/$f.log"; done
  echo "$DEST" > "$D/demo_placement.txt"
  echo "CONFIRMED -> $D"
else echo "NOT CONFIRMED"; fi
rm -rf "$L"
