#!/bin/bash
# tools/mutants.sh <file-with-lines "Cxx|repo-relative-file|sed-expr"> [parallelism]
# Runs each textual mutant through the property's quick check on a scratch copy; prints one summary line per mutant.
L="$1"; J="${2:-4}"
run_one() {
  IFS='|' read -r P F SED <<< "$1"
  out=$(/verif/tools/mutant.sh "$F" "$SED" "$P" 2>&1)
  code=$(echo "$out" | grep -o 'exit=[0-9]*' | tail -1)
  nv=$(echo "$out" | grep -c '^VIOLATION')
  und=$(echo "$out" | grep -m1 '^UNDECIDED' | cut -c1-160)
  na=$(echo "$out" | grep -c 'MUTATION DID NOT APPLY')
  echo "[$code viol=$nv notapplied=$na] $P $F :: $SED $und"
}
export -f run_one
grep -v '^#' "$L" | grep -v '^$' | xargs -d '\n' -P "$J" -I{} bash -c 'run_one "$@"' _ {}
