#!/bin/bash
# tools/seedcheck.sh <seed-id> <Cxx> [tier] : run a property's check against a scratch copy of /repo with /verif/seeded/<id>/patch.diff applied
set -u
ID="$1"; P="$2"; TIER="${3:-quick}"
S=$(mktemp -d /tmp/hvxseed.XXXXXX)
rsync -a --exclude /target --exclude .git --exclude /docs /repo/ "$S/repo/"
( cd "$S/repo" && patch -p1 -s < "/verif/seeded/$ID/patch.diff" ) || { echo "PATCH DID NOT APPLY"; rm -rf "$S"; exit 3; }
HVX_REPO="$S/repo" HVX_BUILD="$S/build" HVX_EVIDENCE_DIR="$S/evidence" HVX_REPLAY_DIR="$S/replays" /verif/check "$P" --tier "$TIER" > "$S/out.txt" 2>&1
code=$?
sed "s|$S|<scratch>|g" "$S/out.txt" | cut -c1-260 | tail -8
echo "seed=$ID property=$P tier=$TIER exit=$code violations=$(grep -c '^VIOLATION' "$S/out.txt")"
if [ -d "$S/replays/$P" ]; then mkdir -p "/verif/seeded/$ID/replay_$P"; cp "$S/replays/$P/"* "/verif/seeded/$ID/replay_$P/" 2>/dev/null; sed -i "s|$S|<scratch>|g" /verif/seeded/$ID/replay_$P/* 2>/dev/null; fi
rm -rf "$S"
