#!/bin/bash
# tools/confirm_seed.sh <worktree> <crate> <demo command (run inside the worktree)>
# Confirms, in the sub-agent's scratch worktree (state: patch applied + demo added), the three facts a seeded change needs:
#   1. the demonstration FAILS with the change,  2. it PASSES without it,  3. the crate's existing tests pass with the change alone.
W="$1"; CRATE="$2"; DEMO="$3"
cd "$W" || exit 9
L=/tmp/confirm_$(basename "$W"); mkdir -p "$L"; cp OUT/patch.diff "$L/patch.diff"
export CARGO_TARGET_DIR="$W/target" CARGO_NET_OFFLINE=true
echo "== 1. demo with change (must fail)"
bash -c "$DEMO" > "$L/demo_with.log" 2>&1; R1=$?
echo "   exit=$R1"
echo "== 2. demo without change (must pass)"
git apply -R "$L/patch.diff" || { echo "cannot reverse patch"; exit 8; }
bash -c "$DEMO" > "$L/demo_without.log" 2>&1; R2=$?
git apply "$L/patch.diff"
echo "   exit=$R2"
echo "== 3. existing tests with the change only (must pass)"
git stash -u -q
git apply "$L/patch.diff"
cargo test -p "$CRATE" --offline > "$L/existing.log" 2>&1; R3=$?
git checkout -q -- .
git stash pop -q
echo "   exit=$R3"
grep -E "^test result" "$L/existing.log" | head -8
if [ $R1 -ne 0 ] && [ $R2 -eq 0 ] && [ $R3 -eq 0 ]; then echo "CONFIRMED"; else echo "NOT CONFIRMED ($R1 $R2 $R3)"; fi
