#!/usr/bin/env python3
"""tools/runo.py <overlay-or-dep unit> <filter>... : run matching harnesses of a unit through the driver's own code path, print a table"""
import sys, importlib.machinery, importlib.util
sys.argv = ['check'] + sys.argv[1:]
loader = importlib.machinery.SourceFileLoader('chk', '/verif/check'); spec = importlib.util.spec_from_loader('chk', loader)
m = importlib.util.module_from_spec(spec); loader.exec_module(m)
r = m.run_kani_unit(sys.argv[1], sys.argv[2:], 'thorough')
print(round(r.get('wall_s', 0), 1), r.get('undecided'))
for o in r['obligations']:
    print(o['function'], o['status'], o['seconds'], [c['clause'] for c in o['failed_clauses']])
if not r['obligations']:
    print(r.get('raw', '')[-3000:])
