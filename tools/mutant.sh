#!/bin/bash
# tools/mutant.sh <repo-relative-file> <sed-expression> <Cxx> [tier]
# Run a check against a scratch copy of /repo with one textual mutation; prints the check's last lines and exit code.
set -u
F="$1"; SED="$2"; P="$3"; TIER="${4:-quick}"
S=$(mktemp -d /tmp/hvxmut.XXXXXX)
rsync -a --exclude /target --exclude .git --exclude /docs /repo/ "$S/repo/"
cp "$S/repo/$F" "$S/orig"
sed -i "$SED" "$S/repo/$F"
if cmp -s "$S/orig" "$S/repo/$F"; then echo "MUTATION DID NOT APPLY"; rm -rf "$S"; exit 3; fi
diff "$S/orig" "$S/repo/$F" | head -8
HVX_REPO="$S/repo" HVX_BUILD="$S/build" HVX_EVIDENCE_DIR="$S/evidence" HVX_REPLAY_DIR="$S/replays" /verif/check "$P" --tier "$TIER" 2>&1 | sed "s|$S|<scratch>|g" | tail -6
echo "exit=${PIPESTATUS[0]}"
rm -rf "$S"
