#!/bin/bash
# tools/confirm_seed3.sh <clean worktree> <dir with patch.diff+demo.rs+agent_meta.json> <crate> <source file the demo module is APPENDED to> <test filter> <seed id> <cargo extra args> <existing-test filter>
# Like confirm_seed2.sh, for demos that are `#[cfg(test)] mod`s appended to a source file (private items).
W="$1"; O="$2"; CRATE="$3"; SRC="$4"; FILT="$5"; ID="$6"; EXTRA="$7"; EXIST="$8"
cd "$W" || exit 9
export CARGO_TARGET_DIR="$W/target" CARGO_NET_OFFLINE=true
L=$(mktemp -d /tmp/confirm3.XXXXXX)
git checkout -q -- . ; git apply "$O/patch.diff" || { echo "patch does not apply"; exit 8; }
cat "$O/demo.rs" >> "$SRC"
cargo test -p "$CRATE" --offline --lib $EXTRA "$FILT" > "$L/demo_with.log" 2>&1; R1=$?
git checkout -q -- . ; cat "$O/demo.rs" >> "$SRC"
cargo test -p "$CRATE" --offline --lib $EXTRA "$FILT" > "$L/demo_without.log" 2>&1; R2=$?
git checkout -q -- . ; git apply "$O/patch.diff"
cargo test -p "$CRATE" --offline --lib $EXTRA $EXIST > "$L/existing.log" 2>&1; R3=$?
git checkout -q -- .
echo "demo with change exit=$R1 (must be !=0); without exit=$R2 (must be 0); existing tests with change exit=$R3 (must be 0)"
grep -E "^test result" "$L/demo_with.log" "$L/demo_without.log" "$L/existing.log" | head -6
if [ $R1 -ne 0 ] && [ $R2 -eq 0 ] && [ $R3 -eq 0 ] && grep -q "test result: FAILED" "$L/demo_with.log"; then
  D=/verif/seeded/$ID; mkdir -p "$D"
  cp "$O/patch.diff" "$O/demo.rs" "$O/agent_meta.json" "$D/"; [ -f "$O/INSTRUCTIONS.txt" ] && cp "$O/INSTRUCTIONS.txt" "$D/"
  for f in demo_with demo_without existing; do tail -c 6000 "$L/$f.log" > "$D/$f.log"; done
  echo "append to $SRC" > "$D/demo_placement.txt"
  echo "CONFIRMED -> $D"
else echo "NOT CONFIRMED"; fi
rm -rf "$L"
