//! CONTRACT DOUBLE of `smallvec::SmallVec<[T; N]>` as the half-join states use it (`smallvec![x]`, `push`, and the slice methods `iter` /
//! `contains` through Deref): a plain Vec.  The inline-storage / spill-to-heap machinery of the real SmallVec is what makes a second value
//! under one key intractable for CBMC; the sequence contract (push appends, Deref exposes the elements in order) is what the states rely on.
pub trait Array { type Item; }
impl<T, const N: usize> Array for [T; N] { type Item = T; }
pub struct SmallVec<A: Array>(pub Vec<A::Item>);
impl<A: Array> SmallVec<A> {
    pub fn new() -> Self { SmallVec(Vec::new()) }
    pub fn push(&mut self, value: A::Item) { self.0.push(value) }
}
impl<A: Array> core::ops::Deref for SmallVec<A> { type Target = [A::Item]; fn deref(&self) -> &[A::Item] { &self.0 } }
impl<A: Array> core::ops::DerefMut for SmallVec<A> { fn deref_mut(&mut self) -> &mut [A::Item] { &mut self.0 } }
impl<A: Array> core::fmt::Debug for SmallVec<A> where A::Item: core::fmt::Debug {
    fn fmt(&self, f: &mut core::fmt::Formatter<'_>) -> core::fmt::Result { f.debug_list().entries(self.0.iter()).finish() }
}
#[macro_export]
macro_rules! smallvec {
    ($($x:expr),* $(,)?) => {{ let mut v = $crate::SmallVec::new(); $( v.push($x); )* v }};
}
