//! CONTRACT DOUBLE of the hash map the half-join states own (`rustc_hash::FxHashMap` = `std::collections::HashMap` with the Fx hasher) and of
//! the `std::collections::hash_map::{Entry, Iter}` items they name: an insertion-ordered association list with the operations the two files
//! call (`default`, `entry` -> Occupied::get_mut / Vacant::insert, `get`, `iter`, `clear`).  The real hashbrown table is outside CBMC's
//! reach beyond a single entry (DESIGN.md 14.4); the extraction points `std::collections::hash_map::` at `rustc_hash::hash_map::` (a stated
//! textual substitution) so that the REAL build / probe / pop_match code runs against this finite-map contract.
pub type FxHashMap<K, V> = hash_map::HMap<K, V>;
pub mod hash_map {
    #[derive(Debug)]
    pub struct HMap<K, V> { pub(crate) slots: Vec<(K, V)> }
    impl<K, V> Default for HMap<K, V> { fn default() -> Self { HMap { slots: Vec::new() } } }
    pub enum Entry<'a, K, V> { Occupied(OccupiedEntry<'a, K, V>), Vacant(VacantEntry<'a, K, V>) }
    pub struct OccupiedEntry<'a, K, V> { v: &'a mut V, _k: core::marker::PhantomData<K> }
    pub struct VacantEntry<'a, K, V> { slots: &'a mut Vec<(K, V)>, key: K }
    impl<'a, K, V> OccupiedEntry<'a, K, V> { pub fn get_mut(&mut self) -> &mut V { self.v } }
    impl<'a, K, V> VacantEntry<'a, K, V> {
        pub fn insert(self, value: V) -> &'a mut V { self.slots.push((self.key, value)); let n = self.slots.len(); &mut self.slots[n - 1].1 }
    }
    impl<K: Eq, V> HMap<K, V> {
        fn pos(&self, k: &K) -> Option<usize> { let mut i = 0; while i < self.slots.len() { if self.slots[i].0 == *k { return Some(i); } i += 1; } None }
        pub fn entry(&mut self, key: K) -> Entry<'_, K, V> {
            match self.pos(&key) {
                Some(i) => Entry::Occupied(OccupiedEntry { v: &mut self.slots[i].1, _k: core::marker::PhantomData }),
                None => Entry::Vacant(VacantEntry { slots: &mut self.slots, key }),
            }
        }
        pub fn get(&self, k: &K) -> Option<&V> { match self.pos(k) { Some(i) => Some(&self.slots[i].1), None => None } }
        pub fn iter(&self) -> Iter<'_, K, V> { Iter { inner: self.slots.iter() } }
        pub fn clear(&mut self) { self.slots.clear(); }
        pub fn len(&self) -> usize { self.slots.len() }
    }
    pub struct Iter<'a, K, V> { inner: core::slice::Iter<'a, (K, V)> }
    impl<'a, K, V> Iterator for Iter<'a, K, V> {
        type Item = (&'a K, &'a V);
        fn next(&mut self) -> Option<Self::Item> { self.inner.next().map(|(k, v)| (k, v)) }
    }
}
