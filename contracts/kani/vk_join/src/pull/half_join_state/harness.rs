//! The REAL HalfSetJoinState / HalfMultisetJoinState (build / probe / pop_match / len / clear, whole files extracted verbatim) against the
//! HalfJoinState contract in executable form (`Ref`, array-backed), over a contract double of the hash map they own.
//! Bounded: histories of <= 3 builds with enumerated (concrete) key patterns over 2 keys and symbolic values over a 2-value domain, then one
//! probe and the draining of its match queue.
use std::borrow::Cow;

use super::*;

const N: usize = 4;
/// reference state: SET flavour stores a (key, value) pair once, MULTISET every time; probe returns the first built value under the
/// key and queues the others in build order; pop_match is FIFO
struct Ref<const SET: bool> { n: usize, built: [(u8, u8); N], qn: usize, queue: [(u8, u8, u8); N] }
impl<const SET: bool> Ref<SET> {
    fn new() -> Self { Ref { n: 0, built: [(0, 0); N], qn: 0, queue: [(0, 0, 0); N] } }
    fn has(&self, k: u8, v: u8) -> bool { let mut i = 0; while i < self.n { if self.built[i] == (k, v) { return true; } i += 1; } false }
    fn build(&mut self, k: u8, v: u8) -> bool {
        if SET && self.has(k, v) { return false; }
        self.built[self.n] = (k, v);
        self.n += 1;
        true
    }
    fn probe(&mut self, k: u8, p: u8) -> Option<(u8, u8, u8)> {
        let mut first = None;
        let mut i = 0;
        while i < self.n {
            if self.built[i].0 == k {
                if first.is_none() { first = Some((k, p, self.built[i].1)); } else { self.queue[self.qn] = (k, p, self.built[i].1); self.qn += 1; }
            }
            i += 1;
        }
        first
    }
    fn pop(&mut self) -> Option<(u8, u8, u8)> {
        if self.qn == 0 { return None; }
        let m = self.queue[0];
        let mut i = 1;
        while i < self.qn { self.queue[i - 1] = self.queue[i]; i += 1; }
        self.qn -= 1;
        Some(m)
    }
}
fn val() -> u8 { let v: u8 = kani::any(); kani::assume(v < 2); v }

/// One history with CONCRETE keys (the control flow of the map double is then concrete) and symbolic values / probe value: `B` builds with
/// keys `keys[..B]`, one probe of key `kp`, the match queue drained, full_probe, clear.  The instantiations below enumerate the key
/// patterns up to renaming of the two keys.
fn history<S: HalfJoinState<u8, u8, u8> + Default, const SET: bool, const B: usize>(keys: [u8; 3], kp: u8) {
    let mut s = S::default();
    let mut r = Ref::<SET>::new();
    kani::assert(s.len() == 0 && s.is_empty() && s.pop_match().is_none(), "C13:new_state_is_empty");
    let mut i = 0;
    while i < B {
        let (k, v) = (keys[i], val());
        let got = s.build(k, Cow::Owned(v));
        let want = r.build(k, v);
        kani::assert(got == want, "C13:build_reports_whether_the_pair_is_new_for_sets_and_always_true_for_multisets");
        kani::assert(s.len() == r.n, "C13:len_counts_stored_pairs");
        i += 1;
    }
    let (k, p) = (kp, val());
    kani::assert(s.probe(&k, &p) == r.probe(k, p), "C13:probe_returns_the_first_built_match_for_the_key");
    let mut j = 0;
    while j < B {
        kani::assert(s.pop_match() == r.pop(), "C13:pop_match_hands_out_the_remaining_matches_in_build_order");
        j += 1;
    }
    kani::assert(s.pop_match().is_none(), "C13:match_queue_is_empty_after_all_matches_were_popped");
    let mut cnt = 0;
    for _v in s.full_probe(&k) { cnt += 1; }
    let mut want_cnt = 0;
    let mut t = 0;
    while t < r.n { if r.built[t].0 == k { want_cnt += 1; } t += 1; }
    kani::assert(cnt == want_cnt, "C13:full_probe_lists_every_value_stored_under_the_key");
    s.clear();
    kani::assert(s.len() == 0 && s.probe(&k, &p).is_none() && s.pop_match().is_none(), "C13:clear_empties_table_and_match_queue");
    core::mem::forget(s);
}
// `deep_` instances: MEASURED 500 s to > 900 s of CBMC (VecDeque::extend with a second match, three values under one key): in NO tier
macro_rules! inst { ($($name:ident = $s:ty, $set:literal, $b:literal, $keys:expr, $kp:literal;)*) => {
    $( #[kani::proof] #[kani::unwind(6)] pub(crate) fn $name() { history::<$s, $set, $b>($keys, $kp) } )* } }
inst! {
    half_set_state_b1_hit = HalfSetJoinState<u8, u8, u8>, true, 1, [0, 0, 0], 0;
    half_set_state_b1_miss = HalfSetJoinState<u8, u8, u8>, true, 1, [0, 0, 0], 1;
    deep_half_set_state_b2_same_key = HalfSetJoinState<u8, u8, u8>, true, 2, [0, 0, 0], 0;
    deep_half_set_state_b2_two_keys = HalfSetJoinState<u8, u8, u8>, true, 2, [0, 1, 0], 1;
    deep_half_set_state_b3_same_key = HalfSetJoinState<u8, u8, u8>, true, 3, [0, 0, 0], 0;
    deep_half_set_state_b3_mixed = HalfSetJoinState<u8, u8, u8>, true, 3, [0, 1, 0], 0;
    half_multiset_state_b1_hit = HalfMultisetJoinState<u8, u8, u8>, false, 1, [0, 0, 0], 0;
    half_multiset_state_b1_miss = HalfMultisetJoinState<u8, u8, u8>, false, 1, [0, 0, 0], 1;
    deep_half_multiset_state_b2_same_key = HalfMultisetJoinState<u8, u8, u8>, false, 2, [0, 0, 0], 0;
    deep_half_multiset_state_b2_two_keys = HalfMultisetJoinState<u8, u8, u8>, false, 2, [0, 1, 0], 1;
    deep_half_multiset_state_b3_same_key = HalfMultisetJoinState<u8, u8, u8>, false, 3, [0, 0, 0], 0;
    deep_half_multiset_state_b3_mixed = HalfMultisetJoinState<u8, u8, u8>, false, 3, [0, 1, 0], 0;
}

/// builds only (no probe): the return value of build, len and full_probe for a second / third value under one key
fn builds_only<S: HalfJoinState<u8, u8, u8> + Default, const SET: bool, const B: usize>(keys: [u8; 3]) {
    let mut s = S::default();
    let mut r = Ref::<SET>::new();
    let mut i = 0;
    while i < B {
        let (k, v) = (keys[i], val());
        let got = s.build(k, Cow::Owned(v));
        let want = r.build(k, v);
        kani::assert(got == want, "C13:build_reports_whether_the_pair_is_new_for_sets_and_always_true_for_multisets");
        kani::assert(s.len() == r.n, "C13:len_counts_stored_pairs");
        i += 1;
    }
    let mut cnt = 0;
    for _v in s.full_probe(&0) { cnt += 1; }
    let mut want_cnt = 0;
    let mut t = 0;
    while t < r.n { if r.built[t].0 == 0 { want_cnt += 1; } t += 1; }
    kani::assert(cnt == want_cnt, "C13:full_probe_lists_every_value_stored_under_the_key");
    core::mem::forget(s);
}
#[kani::proof] #[kani::unwind(6)] pub(crate) fn half_set_builds_b2_same_key() { builds_only::<HalfSetJoinState<u8, u8, u8>, true, 2>([0, 0, 0]) }
#[kani::proof] #[kani::unwind(6)] pub(crate) fn deep_half_set_builds_b3_same_key() { builds_only::<HalfSetJoinState<u8, u8, u8>, true, 3>([0, 0, 0]) }
#[kani::proof] #[kani::unwind(6)] pub(crate) fn half_multiset_builds_b2_same_key() { builds_only::<HalfMultisetJoinState<u8, u8, u8>, false, 2>([0, 0, 0]) }
#[kani::proof] #[kani::unwind(6)] pub(crate) fn deep_half_multiset_builds_b3_same_key() { builds_only::<HalfMultisetJoinState<u8, u8, u8>, false, 3>([0, 0, 0]) }
