//! C13: dfir_pipes/src/pull/half_join_state/{mod,set,multiset}.rs extracted verbatim (whole files) by hvx on every run, with ONE stated
//! substitution (`std::collections::hash_map::` -> `rustc_hash::hash_map::`) so that the map behind the states is a contract double.
#![allow(dead_code, unused_imports, clippy::all)]
pub mod pull { pub mod half_join_state; }
