//! Symbolic value construction for monomorphic lattice instantiations.
use lattices::{Conflict, DomPair, Max, Min, Pair, Point, WithBot, WithTop};

pub trait Sym: Sized {
    /// A fully symbolic value of the type (every representable value).
    fn sym() -> Self;
    /// The greatest value of the type per the documented model, if it has one.
    fn top_w() -> Option<Self>;
}

impl Sym for u8 {
    fn sym() -> Self { kani::any() }
    fn top_w() -> Option<Self> { None }
}
impl Sym for bool {
    fn sym() -> Self { kani::any() }
    fn top_w() -> Option<Self> { None }
}
impl Sym for () {
    fn sym() -> Self {}
    fn top_w() -> Option<Self> { Some(()) }
}
impl Sym for Max<u8> {
    fn sym() -> Self { Max::new(kani::any()) }
    fn top_w() -> Option<Self> { Some(Max::new(u8::MAX)) }
}
impl Sym for Min<u8> {
    fn sym() -> Self { Min::new(kani::any()) }
    fn top_w() -> Option<Self> { Some(Min::new(u8::MIN)) }
}
impl Sym for Max<bool> {
    fn sym() -> Self { Max::new(kani::any()) }
    fn top_w() -> Option<Self> { Some(Max::new(true)) }
}
impl Sym for Min<bool> {
    fn sym() -> Self { Min::new(kani::any()) }
    fn top_w() -> Option<Self> { Some(Min::new(false)) }
}
impl Sym for Max<char> {
    fn sym() -> Self { Max::new(kani::any()) }
    fn top_w() -> Option<Self> { Some(Max::new(char::MAX)) }
}
impl Sym for Min<char> {
    fn sym() -> Self { Min::new(kani::any()) }
    fn top_w() -> Option<Self> { Some(Min::new('\x00')) }
}
impl Sym for Max<()> {
    fn sym() -> Self { Max::new(()) }
    fn top_w() -> Option<Self> { Some(Max::new(())) }
}
impl Sym for Min<()> {
    fn sym() -> Self { Min::new(()) }
    fn top_w() -> Option<Self> { Some(Min::new(())) }
}
impl<I: Sym> Sym for WithBot<I> {
    fn sym() -> Self { WithBot::new(if kani::any() { Some(I::sym()) } else { None }) }
    fn top_w() -> Option<Self> { I::top_w().map(|t| WithBot::new(Some(t))) }
}
impl<I: Sym> Sym for WithTop<I> {
    fn sym() -> Self { WithTop::new(if kani::any() { Some(I::sym()) } else { None }) }
    fn top_w() -> Option<Self> { Some(WithTop::new(None)) }
}
impl<A: Sym, B: Sym> Sym for Pair<A, B> {
    fn sym() -> Self { Pair::new(A::sym(), B::sym()) }
    fn top_w() -> Option<Self> {
        match (A::top_w(), B::top_w()) { (Some(a), Some(b)) => Some(Pair::new(a, b)), _ => None }
    }
}
impl<K: Sym, V: Sym> Sym for DomPair<K, V> {
    fn sym() -> Self { DomPair::new(K::sym(), V::sym()) }
    fn top_w() -> Option<Self> {
        match (K::top_w(), V::top_w()) { (Some(a), Some(b)) => Some(DomPair::new(a, b)), _ => None }
    }
}
impl<T: Sym> Sym for Conflict<T> {
    fn sym() -> Self { Conflict::new(if kani::any() { Some(T::sym()) } else { None }) }
    fn top_w() -> Option<Self> { Some(Conflict::new(None)) }
}
