//! Harness-side array-backed collections standing for "any implementation of the collection contract"
//! (std HashSet/BTreeSet/HashMap are outside CBMC's reach).  They are receivers (`Extend`) for SetUnion / MapUnion merges.
//! Each is itself checked against the contract it stands for in `coll::tiny_*` harnesses.
use cc_traits::{
    MapInsert, Remove, Collection, CollectionMut, CollectionRef, Get, GetKeyValue, GetMut, Iter, Keyed, KeyedRef, Len, MapIter, SimpleCollectionRef,
    SimpleKeyedRef, covariant_item_mut, covariant_item_ref, covariant_key_ref, simple_collection_ref, simple_keyed_ref,
};

pub const CAP: usize = 6;

#[derive(Clone, Copy, Debug)]
pub struct TinySet { pub n: usize, pub v: [u8; CAP] }
impl Default for TinySet { fn default() -> Self { TinySet { n: 0, v: [0; CAP] } } }
impl TinySet {
    pub fn has(&self, x: u8) -> bool {
        let mut i = 0;
        while i < self.n { if self.v[i] == x { return true; } i += 1; }
        false
    }
    pub fn insert(&mut self, x: u8) {
        if !self.has(x) {
            assert!(self.n < CAP); // harness sizing error, not a property
            self.v[self.n] = x;
            self.n += 1;
        }
    }
}
impl Extend<u8> for TinySet {
    fn extend<I: IntoIterator<Item = u8>>(&mut self, iter: I) { for x in iter { self.insert(x); } }
}
impl FromIterator<u8> for TinySet {
    fn from_iter<I: IntoIterator<Item = u8>>(iter: I) -> Self { let mut s = TinySet::default(); s.extend(iter); s }
}
impl IntoIterator for TinySet {
    type Item = u8;
    type IntoIter = core::iter::Take<core::array::IntoIter<u8, CAP>>;
    fn into_iter(self) -> Self::IntoIter { self.v.into_iter().take(self.n) }
}
impl Collection for TinySet { type Item = u8; }
impl Len for TinySet { fn len(&self) -> usize { self.n } }
impl CollectionRef for TinySet {
    type ItemRef<'a> = &'a u8 where Self: 'a;
    covariant_item_ref!();
}
impl SimpleCollectionRef for TinySet { simple_collection_ref!(); }
impl<'a> Get<&'a u8> for TinySet {
    fn get(&self, key: &'a u8) -> Option<&u8> {
        let mut i = 0;
        while i < self.n { if self.v[i] == *key { return Some(&self.v[i]); } i += 1; }
        None
    }
}
impl Iter for TinySet {
    type Iter<'a> = core::iter::Take<core::slice::Iter<'a, u8>> where Self: 'a;
    fn iter(&self) -> Self::Iter<'_> { self.v.iter().take(self.n) }
}

pub const MCAP: usize = 4;
#[derive(Clone, Copy, Debug)]
pub struct TinyMap<V> { pub n: usize, pub k: [u8; MCAP], pub v: [V; MCAP] }
impl<V: Default> Default for TinyMap<V> { fn default() -> Self { TinyMap { n: 0, k: [0; MCAP], v: core::array::from_fn(|_| V::default()) } } }
impl<V: Default> TinyMap<V> {
    pub fn pos(&self, key: u8) -> Option<usize> {
        let mut i = 0;
        while i < self.n { if self.k[i] == key { return Some(i); } i += 1; }
        None
    }
    pub fn insert(&mut self, key: u8, val: V) -> Option<V> {
        match self.pos(key) {
            Some(i) => Some(core::mem::replace(&mut self.v[i], val)),
            None => { assert!(self.n < MCAP); self.k[self.n] = key; self.v[self.n] = val; self.n += 1; None }
        }
    }
}
impl<V: Default> Extend<(u8, V)> for TinyMap<V> {
    fn extend<I: IntoIterator<Item = (u8, V)>>(&mut self, iter: I) { for (k, v) in iter { self.insert(k, v); } }
}
impl<V: Default> FromIterator<(u8, V)> for TinyMap<V> {
    fn from_iter<I: IntoIterator<Item = (u8, V)>>(iter: I) -> Self { let mut s = TinyMap::default(); s.extend(iter); s }
}
impl<V: Default> IntoIterator for TinyMap<V> {
    type Item = (u8, V);
    type IntoIter = core::iter::Take<core::iter::Zip<core::array::IntoIter<u8, MCAP>, core::array::IntoIter<V, MCAP>>>;
    fn into_iter(self) -> Self::IntoIter { self.k.into_iter().zip(self.v.into_iter()).take(self.n) }
}
impl<V: Default> Collection for TinyMap<V> { type Item = V; }
impl<V: Default> Len for TinyMap<V> { fn len(&self) -> usize { self.n } }
impl<V: Default> CollectionRef for TinyMap<V> {
    type ItemRef<'a> = &'a V where Self: 'a;
    covariant_item_ref!();
}
impl<V: Default> SimpleCollectionRef for TinyMap<V> { simple_collection_ref!(); }
impl<V: Default> CollectionMut for TinyMap<V> {
    type ItemMut<'a> = &'a mut V where Self: 'a;
    covariant_item_mut!();
}
impl<V: Default> Keyed for TinyMap<V> { type Key = u8; }
impl<V: Default> KeyedRef for TinyMap<V> {
    type KeyRef<'a> = &'a u8 where Self: 'a;
    covariant_key_ref!();
}
impl<V: Default> SimpleKeyedRef for TinyMap<V> { simple_keyed_ref!(); }
impl<'a, V: Default> Get<&'a u8> for TinyMap<V> {
    fn get(&self, key: &'a u8) -> Option<&V> { self.pos(*key).map(|i| &self.v[i]) }
}
impl<'a, V: Default> GetMut<&'a u8> for TinyMap<V> {
    fn get_mut(&mut self, key: &'a u8) -> Option<&mut V> { match self.pos(*key) { Some(i) => Some(&mut self.v[i]), None => None } }
}
impl<'a, V: Default> GetKeyValue<&'a u8> for TinyMap<V> {
    fn get_key_value(&self, key: &'a u8) -> Option<(&u8, &V)> { self.pos(*key).map(|i| (&self.k[i], &self.v[i])) }
}
impl<V: Default> Iter for TinyMap<V> {
    type Iter<'a> = core::iter::Take<core::slice::Iter<'a, V>> where Self: 'a;
    fn iter(&self) -> Self::Iter<'_> { self.v.iter().take(self.n) }
}
impl<V: Default> MapIter for TinyMap<V> {
    type Iter<'a> = core::iter::Take<core::iter::Zip<core::slice::Iter<'a, u8>, core::slice::Iter<'a, V>>> where Self: 'a;
    fn iter(&self) -> Self::Iter<'_> { self.k.iter().zip(self.v.iter()).take(self.n) }
}

impl<V: Default> MapInsert<u8> for TinyMap<V> {
    type Output = Option<V>;
    fn insert(&mut self, key: u8, value: V) -> Option<V> { TinyMap::insert(self, key, value) }
}
impl<'a, V: Default> Remove<&'a u8> for TinyMap<V> {
    fn remove(&mut self, key: &'a u8) -> Option<V> {
        match self.pos(*key) {
            None => None,
            Some(i) => {
                let last = self.n - 1;
                self.k.swap(i, last);
                self.v.swap(i, last);
                self.n = last;
                Some(core::mem::take(&mut self.v[last]))
            }
        }
    }
}
