//! C09: each law checker of lattices::algebra returns Ok exactly when its law holds on every tuple of the carrier.
//! Carrier {0..N-1}; the operations are closures over fully symbolic tables (every binary / unary operation on the
//! carrier at once).  Loops are bounded by N^3 (constant of the instantiation) with unwinding assertions on:
//! complete for each N.  The `law` side is written from the mathematical statement, not from the code.
use lattices::algebra::*;

fn tbl2<const N: usize>() -> [[u8; N]; N] {
    let t: [[u8; N]; N] = kani::any();
    let mut i = 0;
    while i < N {
        let mut j = 0;
        while j < N {
            kani::assume((t[i][j] as usize) < N);
            j += 1;
        }
        i += 1;
    }
    t
}
fn tbl1<const N: usize>() -> [u8; N] {
    let t: [u8; N] = kani::any();
    let mut i = 0;
    while i < N {
        kani::assume((t[i] as usize) < N);
        i += 1;
    }
    t
}
fn elem<const N: usize>() -> u8 {
    let e: u8 = kani::any();
    kani::assume((e as usize) < N);
    e
}
fn items<const N: usize>() -> [u8; N] {
    let mut a = [0u8; N];
    let mut i = 0;
    while i < N {
        a[i] = i as u8;
        i += 1;
    }
    a
}

macro_rules! all3 { ($n:expr, |$a:ident, $b:ident, $c:ident| $body:expr) => {{
    let mut ok = true; let mut $a = 0u8;
    while ($a as usize) < $n { let mut $b = 0u8; while ($b as usize) < $n { let mut $c = 0u8; while ($c as usize) < $n {
        if !($body) { ok = false; } $c += 1; } $b += 1; } $a += 1; }
    ok }}; }
macro_rules! all2 { ($n:expr, |$a:ident, $b:ident| $body:expr) => {{
    let mut ok = true; let mut $a = 0u8;
    while ($a as usize) < $n { let mut $b = 0u8; while ($b as usize) < $n {
        if !($body) { ok = false; } $b += 1; } $a += 1; }
    ok }}; }
macro_rules! all1 { ($n:expr, |$a:ident| $body:expr) => {{
    let mut ok = true; let mut $a = 0u8;
    while ($a as usize) < $n { if !($body) { ok = false; } $a += 1; }
    ok }}; }

macro_rules! alg_harnesses {
    ($modname:ident, $n:expr, $unw:expr) => {
        pub(crate) mod $modname {
            use super::*;
            const N: usize = $n;

            #[kani::proof] #[kani::unwind($unw)]
            pub(crate) fn associativity_() {
                let t = tbl2::<N>(); let f = |a: u8, b: u8| t[a as usize][b as usize];
                let law = all3!(N, |a, b, c| f(a, f(b, c)) == f(f(a, b), c));
                kani::assert(associativity(&items::<N>(), f).is_ok() == law, "C09:associativity_ok_iff_law");
            }
            #[kani::proof] #[kani::unwind($unw)]
            pub(crate) fn commutativity_() {
                let t = tbl2::<N>(); let f = |a: u8, b: u8| t[a as usize][b as usize];
                let law = all2!(N, |a, b| f(a, b) == f(b, a));
                kani::assert(commutativity(&items::<N>(), f).is_ok() == law, "C09:commutativity_ok_iff_law");
            }
            #[kani::proof] #[kani::unwind($unw)]
            pub(crate) fn idempotency_() {
                let t = tbl2::<N>(); let f = |a: u8, b: u8| t[a as usize][b as usize];
                let law = all1!(N, |a| f(a, a) == a);
                kani::assert(idempotency(&items::<N>(), f).is_ok() == law, "C09:idempotency_ok_iff_law");
            }
            #[kani::proof] #[kani::unwind($unw)]
            pub(crate) fn identity_() {
                let t = tbl2::<N>(); let f = |a: u8, b: u8| t[a as usize][b as usize]; let e = elem::<N>();
                let law = all1!(N, |a| f(e, a) == a && f(a, e) == a);
                kani::assert(identity(&items::<N>(), f, e).is_ok() == law, "C09:identity_ok_iff_law");
            }
            #[kani::proof] #[kani::unwind($unw)]
            pub(crate) fn inverse_() {
                let t = tbl2::<N>(); let f = |a: u8, b: u8| t[a as usize][b as usize]; let e = elem::<N>();
                let u = tbl1::<N>(); let inv = |a: u8| u[a as usize];
                let law = all1!(N, |a| f(a, inv(a)) == e && f(inv(a), a) == e);
                kani::assert(inverse(&items::<N>(), f, e, inv).is_ok() == law, "C09:inverse_ok_iff_law");
            }
            #[kani::proof] #[kani::unwind($unw)]
            pub(crate) fn nonzero_inverse_() {
                let t = tbl2::<N>(); let f = |a: u8, b: u8| t[a as usize][b as usize]; let e = elem::<N>(); let z = elem::<N>();
                let u = tbl1::<N>(); let inv = |a: u8| u[a as usize];
                let law = all1!(N, |a| a == z || (f(a, inv(a)) == e && f(inv(a), a) == e));
                kani::assert(nonzero_inverse(&items::<N>(), f, e, z, inv).is_ok() == law, "C09:nonzero_inverse_ok_iff_law");
            }
            #[kani::proof] #[kani::unwind($unw)]
            pub(crate) fn absorbing_element_() {
                let t = tbl2::<N>(); let f = |a: u8, b: u8| t[a as usize][b as usize]; let z = elem::<N>();
                let law = all1!(N, |a| f(a, z) == z && f(z, a) == z);
                kani::assert(absorbing_element(&items::<N>(), f, z).is_ok() == law, "C09:absorbing_ok_iff_law");
            }
            #[kani::proof] #[kani::unwind($unw)]
            pub(crate) fn distributes_() {
                let t = tbl2::<N>(); let f = |a: u8, b: u8| t[a as usize][b as usize];
                let s = tbl2::<N>(); let g = |a: u8, b: u8| s[a as usize][b as usize];
                let left = all3!(N, |a, b, c| g(a, f(b, c)) == f(g(a, b), g(a, c)));
                let right = all3!(N, |a, b, c| g(f(b, c), a) == f(g(b, a), g(c, a)));
                kani::assert(left_distributes(&items::<N>(), f, g).is_ok() == left, "C09:left_distributes_ok_iff_law");
                kani::assert(right_distributes(&items::<N>(), f, g).is_ok() == right, "C09:right_distributes_ok_iff_law");
                kani::assert(distributive(&items::<N>(), &f, &g).is_ok() == (left && right), "C09:distributive_ok_iff_law");
            }
            #[kani::proof] #[kani::unwind($unw)]
            pub(crate) fn no_nonzero_zero_divisors_() {
                let t = tbl2::<N>(); let f = |a: u8, b: u8| t[a as usize][b as usize]; let z = elem::<N>();
                let law = all2!(N, |a, b| a == z || b == z || (f(a, b) != z && f(b, a) != z));
                kani::assert(no_nonzero_zero_divisors(&items::<N>(), &f, z).is_ok() == law, "C09:no_zero_divisors_ok_iff_law");
            }
            #[kani::proof] #[kani::unwind($unw)]
            pub(crate) fn linearity_() {
                let t = tbl2::<N>(); let f = |a: u8, b: u8| t[a as usize][b as usize];
                let s = tbl2::<N>(); let g = |a: u8, b: u8| s[a as usize][b as usize];
                let u = tbl1::<N>(); let q = |a: u8| u[a as usize];
                let law = all2!(N, |a, b| q(f(a, b)) == g(q(a), q(b)));
                kani::assert(linearity(&items::<N>()[..], f, g, q).is_ok() == law, "C09:linearity_ok_iff_law");
            }
            #[kani::proof] #[kani::unwind($unw)]
            pub(crate) fn bilinearity_() {
                let t = tbl2::<N>(); let f = |a: u8, b: u8| t[a as usize][b as usize];
                let s = tbl2::<N>(); let h = |a: u8, b: u8| s[a as usize][b as usize];
                let r = tbl2::<N>(); let g = |a: u8, b: u8| r[a as usize][b as usize];
                let w = tbl2::<N>(); let q = |a: u8, b: u8| w[a as usize][b as usize];
                let l1 = all3!(N, |a, b, c| q(f(a, b), c) == g(q(a, c), q(b, c)));
                let l2 = all3!(N, |a, c, d| q(a, h(c, d)) == g(q(a, c), q(a, d)));
                kani::assert(bilinearity(&items::<N>()[..], &items::<N>()[..], f, h, g, q).is_ok() == (l1 && l2), "C09:bilinearity_ok_iff_law");
            }
        }
    };
}

alg_harnesses!(n1, 1, 6);
alg_harnesses!(n2, 2, 10);
alg_harnesses!(n3, 3, 29);

/// Composite checkers: Ok exactly when every component law of the structure (by its mathematical definition)
/// is reported Ok by the component checkers (whose own contracts are the harnesses above).
macro_rules! alg_composites {
    ($modname:ident, $n:expr, $unw:expr) => {
        pub(crate) mod $modname {
            use super::*;
            const N: usize = $n;
            #[kani::proof] #[kani::unwind($unw)]
            pub(crate) fn semigroup_monoid_group_() {
                let t = tbl2::<N>(); let f = |a: u8, b: u8| t[a as usize][b as usize]; let e = elem::<N>();
                let u = tbl1::<N>(); let inv = |a: u8| u[a as usize];
                let it = items::<N>();
                let assoc = associativity(&it, &f).is_ok();
                let ident = identity(&it, &f, e).is_ok();
                let comm = commutativity(&it, &f).is_ok();
                let invs = inverse(&it, &f, e, &inv).is_ok();
                kani::assert(semigroup(&it, &f).is_ok() == assoc, "C09:semigroup_ok_iff_components");
                kani::assert(monoid(&it, &f, e).is_ok() == (assoc && ident), "C09:monoid_ok_iff_components");
                kani::assert(commutative_monoid(&it, &f, e).is_ok() == (assoc && ident && comm), "C09:commutative_monoid_ok_iff_components");
                kani::assert(group(&it, &f, e, &inv).is_ok() == (assoc && ident && invs), "C09:group_ok_iff_components");
                kani::assert(abelian_group(&it, &f, e, &inv).is_ok() == (assoc && ident && invs && comm), "C09:abelian_group_ok_iff_components");
            }
            #[kani::proof] #[kani::unwind($unw)]
            pub(crate) fn semiring_ring_field_() {
                let t = tbl2::<N>(); let f = |a: u8, b: u8| t[a as usize][b as usize];
                let s = tbl2::<N>(); let g = |a: u8, b: u8| s[a as usize][b as usize];
                let zero = elem::<N>(); let one = elem::<N>();
                let u = tbl1::<N>(); let neg = |a: u8| u[a as usize];
                let v = tbl1::<N>(); let rec = |a: u8| v[a as usize];
                let it = items::<N>();
                let sr = commutative_monoid(&it, &f, zero).is_ok() && monoid(&it, &g, one).is_ok()
                    && absorbing_element(&it, &g, zero).is_ok() && distributive(&it, &f, &g).is_ok();
                let add_inv = inverse(&it, &f, zero, &neg).is_ok();
                let g_comm = commutativity(&it, &g).is_ok();
                let nzd = no_nonzero_zero_divisors(&it, &g, zero).is_ok();
                let mul_inv = nonzero_inverse(&it, &g, one, zero, &rec).is_ok();
                kani::assert(semiring(&it, &f, &g, zero, one).is_ok() == sr, "C09:semiring_ok_iff_components");
                kani::assert(ring(&it, &f, &g, zero, one, &neg).is_ok() == (sr && add_inv), "C09:ring_ok_iff_components");
                kani::assert(commutative_ring(&it, &f, &g, zero, one, &neg).is_ok() == (sr && add_inv && g_comm), "C09:commutative_ring_ok_iff_components");
                kani::assert(integral_domain(&it, &f, &g, zero, one, &neg).is_ok() == (sr && add_inv && g_comm && nzd), "C09:integral_domain_ok_iff_components");
                kani::assert(field(&it, &f, &g, zero, one, &neg, &rec).is_ok() == (sr && add_inv && g_comm && mul_inv), "C09:field_ok_iff_components");
            }
        }
    };
}
alg_composites!(c1, 1, 6);
alg_composites!(c2, 2, 10);
