//! Kani twins and Kani-only contracts for the `lattices` crate (real crate, path dependency on /repo).
//! Every harness here is loop-free over fully symbolic inputs of the stated monomorphic type:
//! complete for that instantiation (DESIGN.md §3.3).
#![allow(dead_code, clippy::all)]

#[cfg(kani)]
mod sym;
#[cfg(kani)]
pub(crate) mod twins;
#[cfg(kani)]
pub(crate) mod alg;
#[cfg(kani)]
pub(crate) mod tiny;
#[cfg(kani)]
pub(crate) mod coll;
#[cfg(kani)]
pub(crate) mod coll2;
#[cfg(kani)]
pub(crate) mod coll3;
