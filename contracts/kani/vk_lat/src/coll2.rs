//! VecUnion and UnionFind (bounded): contracts against independent models.
use core::cell::Cell;
use core::cmp::Ordering::*;

use lattices::collections::{ArrayMap, SingletonMap};
use lattices::union_find::UnionFind;
use lattices::{IsBot, IsTop, LatticeFrom, Max, Merge, VecUnion};

use crate::tiny::TinyMap;

// ---------------------------------------------------------------------------------------------- VecUnion<Max<u8>>
/// model of a vector of length <= 2
#[derive(Clone, Copy)]
struct MV { n: usize, v: [u8; 2] }
fn sym_mv() -> MV {
    let n: usize = kani::any();
    kani::assume(n <= 2);
    MV { n, v: [kani::any(), kani::any()] }
}
fn build(m: MV) -> VecUnion<Max<u8>> {
    let mut v = Vec::new();
    let mut i = 0;
    while i < m.n { v.push(Max::new(m.v[i])); i += 1; }
    VecUnion::new(v)
}
fn read(x: &VecUnion<Max<u8>>) -> MV {
    let r = x.as_reveal_ref();
    let mut m = MV { n: r.len(), v: [0; 2] };
    let mut i = 0;
    while i < r.len() && i < 2 { m.v[i] = *r[i].as_reveal_ref(); i += 1; }
    m
}
/// the documented model: index-wise merge with extension
fn mv_join(a: MV, b: MV) -> MV {
    let n = a.n.max(b.n);
    let mut v = [0u8; 2];
    let mut i = 0;
    while i < n {
        v[i] = if i < a.n && i < b.n { a.v[i].max(b.v[i]) } else if i < a.n { a.v[i] } else { b.v[i] };
        i += 1;
    }
    MV { n, v }
}
fn mv_eq(a: MV, b: MV) -> bool { a.n == b.n && (a.n < 1 || a.v[0] == b.v[0]) && (a.n < 2 || a.v[1] == b.v[1]) }
fn mv_le(a: MV, b: MV) -> bool { mv_eq(mv_join(a, b), b) }

#[kani::proof] #[kani::unwind(5)]
pub(crate) fn vec_union_merge() {
    let (a, b) = (sym_mv(), sym_mv());
    let mut x = build(a);
    let changed = x.merge(build(b));
    let after = read(&x);
    // C01 rides on the same fact: index-wise max with extension is associative, commutative and idempotent
    kani::assert(mv_eq(after, mv_join(a, b)), "C01+C04:vec_union_merge_is_indexwise_merge_with_extension");
    kani::assert(changed == !mv_eq(after, a), "C02:changed_iff_value_differs");
    kani::assert(changed == !mv_le(b, a), "C02:changed_iff_other_not_below");
}
#[kani::proof] #[kani::unwind(5)]
pub(crate) fn vec_union_aci() {
    let (a, b, c) = (sym_mv(), sym_mv(), sym_mv());
    let m = |x: MV, y: MV| { let mut s = build(x); s.merge(build(y)); read(&s) };
    kani::assert(mv_eq(m(m(a, b), c), m(a, m(b, c))), "C01:associative");
    kani::assert(mv_eq(m(a, b), m(b, a)), "C01:commutative");
    kani::assert(mv_eq(m(a, a), a), "C01:idempotent");
}
#[kani::proof] #[kani::unwind(5)]
pub(crate) fn vec_union_cmp() {
    let (a, b) = (sym_mv(), sym_mv());
    let (x, y) = (build(a), build(b));
    let (le, ge) = (mv_le(a, b), mv_le(b, a));
    let want = if le && ge { Some(Equal) } else if le { Some(Less) } else if ge { Some(Greater) } else { None };
    kani::assert(x.partial_cmp(&y) == want, "C03:vec_union_partial_cmp_is_induced_order");
    kani::assert((x == y) == mv_eq(a, b), "C03:vec_union_eq_is_same_vector");
    kani::assert(x.is_bot() == (a.n == 0) && !x.is_top(), "C03:vec_union_is_bot_iff_empty_never_top");
    kani::assert(VecUnion::<Max<u8>>::default().is_bot(), "C03:default_is_bot");
    let f: VecUnion<Max<u8>> = LatticeFrom::lattice_from(build(a));
    kani::assert(mv_eq(read(&f), a), "C04:lattice_from_preserves_value");
}

// ---------------------------------------------------------------------------------------------- UnionFind
const D: usize = 3; // item domain {0,1,2}
type Uf = UnionFind<TinyMap<Cell<u8>>>;
/// oracle: reflexive-symmetric-transitive closure as a D x D matrix
#[derive(Clone, Copy)]
struct Rel { r: [[bool; D]; D] }
impl Rel {
    fn id() -> Self { let mut r = [[false; D]; D]; let mut i = 0; while i < D { r[i][i] = true; i += 1; } Rel { r } }
    fn link(&mut self, a: usize, b: usize) {
        let (ra, rb) = (self.r[a], self.r[b]);
        let mut i = 0;
        while i < D {
            let mut j = 0;
            while j < D { if (ra[i] && rb[j]) || (rb[i] && ra[j]) { self.r[i][j] = true; } j += 1; }
            i += 1;
        }
    }
    fn same(&self, a: usize, b: usize) -> bool { self.r[a][b] }
    fn leq(&self, o: &Rel) -> bool { let mut ok = true; let mut i = 0; while i < D { let mut j = 0; while j < D { if self.r[i][j] && !o.r[i][j] { ok = false; } j += 1; } i += 1; } ok }
}
fn item() -> u8 { let x: u8 = kani::any(); kani::assume((x as usize) < D); x }
/// a reachable union-find: <= 2 symbolic unions from empty, with its oracle
fn reachable() -> (Uf, Rel) {
    let mut uf: Uf = UnionFind::new(TinyMap::default());
    let mut rel = Rel::id();
    let n: u8 = kani::any();
    kani::assume(n <= 2);
    let mut i = 0;
    while i < n {
        let (a, b) = (item(), item());
        uf.union(a, b);
        rel.link(a as usize, b as usize);
        i += 1;
    }
    (uf, rel)
}
/// `same` agrees with the closure on a symbolic pair (i.e. on every pair); a second symbolic query afterwards checks
/// that path compression done by the first one did not change the partition.
fn agrees(uf: &Uf, rel: &Rel) -> bool {
    let (a, b, c, d) = (item(), item(), item(), item());
    let first = uf.same(a, b).into_reveal() == rel.same(a as usize, b as usize);
    let second = uf.same(c, d).into_reveal() == rel.same(c as usize, d as usize);
    first && second
}

/// union: returns true iff the classes differed; afterwards `same` is exactly the closure.
#[kani::proof] #[kani::unwind(6)]
pub(crate) fn union_find_union() {
    let (mut uf, mut rel) = reachable();
    let (a, b) = (item(), item());
    let differed = !rel.same(a as usize, b as usize);
    let r = uf.union(a, b).into_reveal();
    rel.link(a as usize, b as usize);
    kani::assert(r == differed, "C02:union_reports_true_iff_classes_differed");
    kani::assert(agrees(&uf, &rel), "C04:union_find_same_is_equivalence_closure_and_queries_keep_the_partition");
}

/// merge of another union-find (its entries are union edges): join of partitions; changed iff the partition grew
#[kani::proof] #[kani::unwind(6)]
pub(crate) fn union_find_merge() {
    let (mut uf, mut rel) = reachable();
    let before = rel;
    let (a, b) = (item(), item());
    let changed = uf.merge(UnionFind::new(SingletonMap(a, Cell::new(b))));
    rel.link(a as usize, b as usize);
    kani::assert(changed == !rel.leq(&before), "C02:changed_iff_value_differs");
    kani::assert(agrees(&uf, &rel), "C04:union_find_merge_is_join_of_partitions");
}
#[kani::proof] #[kani::unwind(6)]
pub(crate) fn union_find_merge_array2() {
    let mut uf: Uf = UnionFind::new(TinyMap::default());
    let mut rel = Rel::id();
    let (p, q) = (item(), item());
    uf.union(p, q); rel.link(p as usize, q as usize);
    let before = rel;
    let (a, b, c, d) = (item(), item(), item(), item());
    kani::assume(a != c);
    let other: UnionFind<ArrayMap<u8, Cell<u8>, 2>> = UnionFind::new(ArrayMap::from([(a, Cell::new(b)), (c, Cell::new(d))]));
    let changed = uf.merge(other);
    rel.link(a as usize, b as usize);
    rel.link(c as usize, d as usize);
    kani::assert(changed == !rel.leq(&before), "C02:changed_iff_value_differs");
    kani::assert(agrees(&uf, &rel), "C04:union_find_merge_is_join_of_partitions");
}

/// comparison / equality / is_bot of two reachable union-finds against the refinement order of their closures
#[kani::proof] #[kani::unwind(6)]
pub(crate) fn union_find_cmp() {
    let one = || { let mut uf: Uf = UnionFind::new(TinyMap::default()); let mut rel = Rel::id();
                   if kani::any() { let (a, b) = (item(), item()); uf.union(a, b); rel.link(a as usize, b as usize); } (uf, rel) };
    let (x, rx) = one();
    let (y, ry) = one();
    let (le, ge) = (rx.leq(&ry), ry.leq(&rx));
    let want = if le && ge { Some(Equal) } else if le { Some(Less) } else if ge { Some(Greater) } else { None };
    kani::assert(x.partial_cmp(&y) == want, "C03:union_find_partial_cmp_is_partition_refinement");
    kani::assert((x == y) == (le && ge), "C03:union_find_eq_is_same_partition");
    kani::assert(x.is_bot() == rx.leq(&Rel::id()) && !x.is_top(), "C03:union_find_is_bot_iff_discrete_partition");
}
#[kani::proof] #[kani::unwind(6)]
pub(crate) fn union_find_default_bot() { kani::assert(Uf::default().is_bot(), "C03:default_is_bot"); }
