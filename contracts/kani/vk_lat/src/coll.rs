//! C01-C04 (+C03 cross-representation) for the collection lattices SetUnion / MapUnion on cheap representations:
//! the crate's own ArraySet / OptionSet / SingletonSet / ArrayMap / OptionMap / SingletonMap as merged-in and
//! compared values, harness TinySet / TinyMap as receivers (`Extend`).  Oracles are written on the arrays.
//! Bounded by representation size (<= 2 elements per operand, capacity 6): complete for these sizes.
use core::cmp::Ordering::*;

use lattices::collections::{ArrayMap, ArraySet, OptionMap, OptionSet, SingletonMap, SingletonSet, VecMap, VecSet};
use lattices::map_union::MapUnion;
use lattices::set_union::SetUnion;
use lattices::{IsBot, IsTop, LatticeFrom, Max, Merge};

use crate::tiny::{TinyMap, TinySet};

// ---------------------------------------------------------------------------------------------- sets
/// a symbolic set of <= 2 elements in TinySet representation (no duplicates: the representation invariant)
fn sym_tiny() -> TinySet {
    let mut s = TinySet::default();
    let n: u8 = kani::any();
    kani::assume(n <= 2);
    let (a, b): (u8, u8) = (kani::any(), kani::any());
    if n >= 1 { s.insert(a); }
    if n >= 2 { kani::assume(a != b); s.insert(b); }
    s
}
fn sym_array2() -> ArraySet<u8, 2> {
    let (a, b): (u8, u8) = (kani::any(), kani::any());
    kani::assume(a != b); // documented invariant of ArraySet: no duplicates
    ArraySet([a, b])
}
fn subset(a: &TinySet, b: &TinySet) -> bool {
    let mut i = 0;
    let mut ok = true;
    while i < a.n { if !b.has(a.v[i]) { ok = false; } i += 1; }
    ok
}
fn as_tiny<S: IntoIterator<Item = u8>>(s: S) -> TinySet { s.into_iter().collect() }

/// merge contract against the set-union model, receiver TinySet, argument in each cheap representation
fn set_merge_contract<Other: IntoIterator<Item = u8> + Clone>(other: Other) {
    let before = sym_tiny();
    let o = as_tiny(other.clone());
    let mut x = SetUnion::new(before);
    let changed = x.merge(SetUnion::new(other));
    let after = x.into_reveal();
    // C04: exactly set union
    let mut e: u8 = kani::any();
    let _ = &mut e;
    // C01 rides on the same fact: set union is associative, commutative and idempotent, so a merge that IS set union is ACI
    kani::assert(after.has(e) == (before.has(e) || o.has(e)), "C01+C04:set_union_merge_is_set_union");
    kani::assert(after.n <= before.n + o.n, "C04:set_union_merge_adds_no_duplicates");
    // C02
    kani::assert(changed == !subset(&o, &before), "C02:set_union_changed_iff_other_not_subset");
}
#[kani::proof] #[kani::unwind(8)] pub(crate) fn set_merge_tiny() { set_merge_contract(sym_tiny()) }
#[kani::proof] #[kani::unwind(8)] pub(crate) fn set_merge_array2() { set_merge_contract(sym_array2()) }
#[kani::proof] #[kani::unwind(8)] pub(crate) fn set_merge_option() { set_merge_contract(OptionSet::<u8>(if kani::any() { Some(kani::any()) } else { None })) }
#[kani::proof] #[kani::unwind(8)] pub(crate) fn set_merge_singleton() { set_merge_contract(SingletonSet::<u8>(kani::any())) }

/// C01 on SetUnion<TinySet>: ACI via the model (membership) rather than via the crate's eq
#[kani::proof] #[kani::unwind(8)]
pub(crate) fn set_aci() {
    let (a, b, c) = (sym_tiny(), sym_tiny(), sym_tiny());
    let m = |x: TinySet, y: TinySet| { let mut s = SetUnion::new(x); s.merge(SetUnion::new(y)); s.into_reveal() };
    let e: u8 = kani::any();
    kani::assert(m(m(a, b), c).has(e) == m(a, m(b, c)).has(e), "C01:associative");
    kani::assert(m(a, b).has(e) == m(b, a).has(e), "C01:commutative");
    kani::assert(m(a, a).has(e) == a.has(e) && m(a, a).n == a.n, "C01:idempotent");
}

/// C03: partial_cmp / eq across representations against the subset oracle
fn set_cmp_contract<A, B>(a: A, b: B)
where
    A: Clone + IntoIterator<Item = u8>, B: Clone + IntoIterator<Item = u8>,
    SetUnion<A>: PartialOrd<SetUnion<B>>,
{
    let (ta, tb) = (as_tiny(a.clone()), as_tiny(b.clone()));
    let (ab, ba) = (subset(&ta, &tb), subset(&tb, &ta));
    let want = if ab && ba { Some(Equal) } else if ab { Some(Less) } else if ba { Some(Greater) } else { None };
    let (sa, sb) = (SetUnion::new(a), SetUnion::new(b));
    kani::assert(sa.partial_cmp(&sb) == want, "C03:set_union_partial_cmp_is_subset_order");
    kani::assert((sa == sb) == (ab && ba), "C03:set_union_eq_is_same_elements");
}
#[kani::proof] #[kani::unwind(8)] pub(crate) fn set_cmp_tiny_tiny() { set_cmp_contract(sym_tiny(), sym_tiny()) }
#[kani::proof] #[kani::unwind(8)] pub(crate) fn set_cmp_array_array() { set_cmp_contract(sym_array2(), sym_array2()) }
#[kani::proof] #[kani::unwind(8)] pub(crate) fn set_cmp_array_option() { set_cmp_contract(sym_array2(), OptionSet::<u8>(if kani::any() { Some(kani::any()) } else { None })) }
#[kani::proof] #[kani::unwind(8)] pub(crate) fn set_cmp_option_array() { set_cmp_contract(OptionSet::<u8>(if kani::any() { Some(kani::any()) } else { None }), sym_array2()) }
#[kani::proof] #[kani::unwind(8)] pub(crate) fn set_cmp_singleton_tiny() { set_cmp_contract(SingletonSet::<u8>(kani::any()), sym_tiny()) }
#[kani::proof] #[kani::unwind(8)] pub(crate) fn set_cmp_tiny_singleton() { set_cmp_contract(sym_tiny(), SingletonSet::<u8>(kani::any())) }
#[kani::proof] #[kani::unwind(8)] pub(crate) fn set_cmp_option_singleton() { set_cmp_contract(OptionSet::<u8>(if kani::any() { Some(kani::any()) } else { None }), SingletonSet::<u8>(kani::any())) }

/// the crate's Vec-backed set (`VecSet`) as merged-in / compared value: a duplicate-free Vec of 0..2 elements (one harness per length)
fn sym_vecset<const N: usize>() -> VecSet<u8> {
    let it: [u8; N] = kani::any();
    if N == 2 { kani::assume(it[0] != it[1]); }
    let mut v = Vec::new();
    let mut i = 0;
    while i < N { v.push(it[i]); i += 1; }
    VecSet(v)
}
#[kani::proof] #[kani::unwind(8)] pub(crate) fn set_merge_vecset2() { set_merge_contract(sym_vecset::<2>()) }
#[kani::proof] #[kani::unwind(8)] pub(crate) fn set_cmp_vecset2_tiny() { set_cmp_contract(sym_vecset::<2>(), sym_tiny()) }
#[kani::proof] #[kani::unwind(8)] pub(crate) fn set_cmp_array_vecset1() { set_cmp_contract(sym_array2(), sym_vecset::<1>()) }
#[kani::proof] #[kani::unwind(8)] pub(crate) fn set_cmp_vecset0_option() { set_cmp_contract(sym_vecset::<0>(), OptionSet::<u8>(if kani::any() { Some(kani::any()) } else { None })) }

/// C03: is_bot iff empty, never top, default is bottom; C04: lattice_from keeps the elements
#[kani::proof] #[kani::unwind(8)]
pub(crate) fn set_bot_top_from() {
    let a = sym_tiny();
    let s = SetUnion::new(a);
    kani::assert(s.is_bot() == (a.n == 0), "C03:set_union_is_bot_iff_empty");
    kani::assert(!s.is_top(), "C03:set_union_has_no_top");
    kani::assert(SetUnion::<TinySet>::default().is_bot(), "C03:default_is_bot");
    let f: SetUnion<TinySet> = LatticeFrom::lattice_from(SetUnion::new(sym_array2()));
    kani::assert(f.as_reveal_ref().n == 2, "C04:set_union_lattice_from_keeps_elements");
    let g: SetUnion<TinySet> = LatticeFrom::lattice_from(SetUnion::new(a));
    let e: u8 = kani::any();
    kani::assert(g.as_reveal_ref().has(e) == a.has(e), "C04:lattice_from_preserves_value");
}

/// C03: is_bot in every cheap representation (Len::is_empty may be overridden per collection)
#[kani::proof] #[kani::unwind(8)]
pub(crate) fn set_bot_every_representation() {
    let o = OptionSet::<u8>(if kani::any() { Some(kani::any()) } else { None });
    kani::assert(SetUnion::new(o.clone()).is_bot() == o.0.is_none(), "C03:set_union_is_bot_iff_empty");
    kani::assert(!SetUnion::new(SingletonSet::<u8>(kani::any())).is_bot(), "C03:set_union_is_bot_iff_empty");
    kani::assert(!SetUnion::new(sym_array2()).is_bot() && SetUnion::new(ArraySet::<u8, 0>([])).is_bot(), "C03:set_union_is_bot_iff_empty");
    kani::assert(SetUnion::new(lattices::collections::EmptySet::<u8>::default()).is_bot(), "C03:set_union_is_bot_iff_empty");
    let om = OptionMap::<u8, V>(if kani::any() { Some((kani::any(), val())) } else { None });
    let want = match &om.0 { None => true, Some((_, v)) => *v.as_reveal_ref() == 0 };
    kani::assert(MapUnion::new(om).is_bot() == want, "C03:map_union_is_bot_iff_every_value_is_bot");
    let sv = val();
    kani::assert(MapUnion::new(SingletonMap::<u8, V>(kani::any(), sv)).is_bot() == (*sv.as_reveal_ref() == 0), "C03:map_union_is_bot_iff_every_value_is_bot");
}

// ---------------------------------------------------------------------------------------------- maps
type V = Max<u8>; // Max(0) is bottom: exercises "bottom entries are invisible"
fn val() -> V { Max::new(kani::any()) }
fn sym_tmap() -> TinyMap<V> {
    let mut m = TinyMap::<V>::default();
    let n: u8 = kani::any();
    kani::assume(n <= 2);
    let (a, b): (u8, u8) = (kani::any(), kani::any());
    if n >= 1 { m.insert(a, val()); }
    if n >= 2 { kani::assume(a != b); m.insert(b, val()); }
    m
}
fn sym_amap2() -> ArrayMap<u8, V, 2> {
    let (a, b): (u8, u8) = (kani::any(), kani::any());
    kani::assume(a != b);
    ArrayMap::from([(a, val()), (b, val())])
}
/// model lookup: value at key, with absent == bottom (0)
fn at(m: &TinyMap<V>, k: u8) -> u8 { match m.pos(k) { Some(i) => m.v[i].into_reveal(), None => 0 } }
fn as_tmap<M: IntoIterator<Item = (u8, V)>>(m: M) -> TinyMap<V> { m.into_iter().collect() }

fn map_merge_contract<Other: IntoIterator<Item = (u8, V)> + Clone>(other: Other) {
    let before = sym_tmap();
    let o = as_tmap(other.clone());
    let mut x = MapUnion::new(before);
    let changed = x.merge(MapUnion::new(other));
    let after = x.into_reveal();
    let k: u8 = kani::any();
    // C04: key-wise max with bottom (0) entries invisible
    // C01 rides on the same fact: key-wise max is associative, commutative and idempotent
    kani::assert(at(&after, k) == at(&before, k).max(at(&o, k)), "C01+C04:map_union_merge_is_keywise_merge");
    // C02: changed iff some key's value grew (in the model)
    let grew = |kk: u8| at(&o, kk) > at(&before, kk);
    let mut any_grew = false;
    let mut i = 0;
    while i < o.n { if grew(o.k[i]) { any_grew = true; } i += 1; }
    kani::assert(changed == any_grew, "C02:map_union_changed_iff_some_value_grew");
    // no key invented, no duplicate key
    kani::assert(after.n <= before.n + o.n, "C04:map_union_merge_adds_only_keys_of_other");
}
#[kani::proof] #[kani::unwind(8)] pub(crate) fn map_merge_tiny() { map_merge_contract(sym_tmap()) }
#[kani::proof] #[kani::unwind(8)] pub(crate) fn map_merge_array2() { map_merge_contract(sym_amap2()) }
#[kani::proof] #[kani::unwind(8)] pub(crate) fn map_merge_option() { map_merge_contract(OptionMap::<u8, V>(if kani::any() { Some((kani::any(), val())) } else { None })) }
#[kani::proof] #[kani::unwind(8)] pub(crate) fn map_merge_singleton() { map_merge_contract(SingletonMap::<u8, V>(kani::any(), val())) }

/// the crate's Vec-backed map (`VecMap`) as merged-in value: parallel key / value Vecs of one entry (duplicate-free by construction)
fn sym_vecmap1() -> VecMap<u8, V> {
    let mut keys = Vec::new();
    let mut vals = Vec::new();
    keys.push(kani::any::<u8>());
    vals.push(val());
    VecMap { keys, vals }
}
#[kani::proof] #[kani::unwind(8)] pub(crate) fn map_merge_vecmap1() { map_merge_contract(sym_vecmap1()) }

fn sym_tmap1() -> TinyMap<V> {
    let mut m = TinyMap::<V>::default();
    if kani::any() { m.insert(kani::any(), val()); }
    m
}
/// associativity on maps with <= 1 entry each (three operands), commutativity/idempotence on maps with <= 2 entries
#[kani::proof] #[kani::unwind(8)]
pub(crate) fn map_aci_small() {
    let (a, b, c) = (sym_tmap1(), sym_tmap1(), sym_tmap1());
    let m = |x: TinyMap<V>, y: TinyMap<V>| { let mut s = MapUnion::new(x); s.merge(MapUnion::new(y)); s.into_reveal() };
    let k: u8 = kani::any();
    kani::assert(at(&m(m(a, b), c), k) == at(&m(a, m(b, c)), k), "C01:associative");
}
#[kani::proof] #[kani::unwind(8)]
pub(crate) fn map_comm_idem() {
    let (a, b) = (sym_tmap(), sym_tmap());
    let m = |x: TinyMap<V>, y: TinyMap<V>| { let mut s = MapUnion::new(x); s.merge(MapUnion::new(y)); s.into_reveal() };
    let k: u8 = kani::any();
    kani::assert(at(&m(a, b), k) == at(&m(b, a), k), "C01:commutative");
    kani::assert(at(&m(a, a), k) == at(&a, k), "C01:idempotent");
}

fn map_cmp_contract<A, B>(a: A, b: B)
where
    A: Clone + IntoIterator<Item = (u8, V)>, B: Clone + IntoIterator<Item = (u8, V)>,
    MapUnion<A>: PartialOrd<MapUnion<B>>,
{
    let (ta, tb) = (as_tmap(a.clone()), as_tmap(b.clone()));
    // oracle over the union of keys, bottom == absent
    let mut le = true; let mut ge = true;
    let mut i = 0;
    while i < ta.n { let k = ta.k[i]; if at(&ta, k) > at(&tb, k) { le = false; } if at(&ta, k) < at(&tb, k) { ge = false; } i += 1; }
    let mut j = 0;
    while j < tb.n { let k = tb.k[j]; if at(&ta, k) > at(&tb, k) { le = false; } if at(&ta, k) < at(&tb, k) { ge = false; } j += 1; }
    let want = if le && ge { Some(Equal) } else if le { Some(Less) } else if ge { Some(Greater) } else { None };
    let (ma, mb) = (MapUnion::new(a), MapUnion::new(b));
    kani::assert(ma.partial_cmp(&mb) == want, "C03:map_union_partial_cmp_is_keywise_order_bottoms_invisible");
    kani::assert((ma == mb) == (le && ge), "C03:map_union_eq_is_keywise_equality_bottoms_invisible");
}
// cheap cross-representation instances for the quick tier (one entry per side)
#[kani::proof] #[kani::unwind(8)] pub(crate) fn map_cmp_small_option_singleton() { map_cmp_contract(OptionMap::<u8, V>(if kani::any() { Some((kani::any(), val())) } else { None }), SingletonMap::<u8, V>(kani::any(), val())) }
#[kani::proof] #[kani::unwind(8)] pub(crate) fn map_cmp_small_singleton_option() { map_cmp_contract(SingletonMap::<u8, V>(kani::any(), val()), OptionMap::<u8, V>(if kani::any() { Some((kani::any(), val())) } else { None })) }
#[kani::proof] #[kani::unwind(8)] pub(crate) fn map_cmp_small_option_option() { map_cmp_contract(OptionMap::<u8, V>(if kani::any() { Some((kani::any(), val())) } else { None }), OptionMap::<u8, V>(if kani::any() { Some((kani::any(), val())) } else { None })) }
#[kani::proof] #[kani::unwind(8)] pub(crate) fn map_cmp_tiny_tiny() { map_cmp_contract(sym_tmap(), sym_tmap()) }
#[kani::proof] #[kani::unwind(8)] pub(crate) fn map_cmp_array_option() { map_cmp_contract(sym_amap2(), OptionMap::<u8, V>(if kani::any() { Some((kani::any(), val())) } else { None })) }
#[kani::proof] #[kani::unwind(8)] pub(crate) fn map_cmp_option_array() { map_cmp_contract(OptionMap::<u8, V>(if kani::any() { Some((kani::any(), val())) } else { None }), sym_amap2()) }
#[kani::proof] #[kani::unwind(8)] pub(crate) fn map_cmp_singleton_tiny() { map_cmp_contract(SingletonMap::<u8, V>(kani::any(), val()), sym_tmap()) }

#[kani::proof] #[kani::unwind(8)]
pub(crate) fn map_bot_top_from() {
    let a = sym_tmap();
    let s = MapUnion::new(a);
    let mut all_bot = true;
    let mut i = 0;
    while i < a.n { if a.v[i].into_reveal() != 0 { all_bot = false; } i += 1; }
    kani::assert(s.is_bot() == all_bot, "C03:map_union_is_bot_iff_every_value_is_bot");
    kani::assert(!s.is_top(), "C03:map_union_has_no_top");
    kani::assert(MapUnion::<TinyMap<V>>::default().is_bot(), "C03:default_is_bot");
    let g: MapUnion<TinyMap<V>> = LatticeFrom::lattice_from(MapUnion::new(sym_amap2()));
    kani::assert(g.as_reveal_ref().n == 2, "C04:map_union_lattice_from_keeps_entries");
    let h: MapUnion<TinyMap<V>> = LatticeFrom::lattice_from(MapUnion::new(a));
    let k: u8 = kani::any();
    kani::assert(at(h.as_reveal_ref(), k) == at(&a, k), "C04:lattice_from_preserves_value");
}
