//! Executable forms of the Verus contracts (C01-C04), asserted with the crate's own PartialEq/PartialOrd,
//! on small monomorphic instantiations.  They (a) provide counterexamples when a Verus obligation fails,
//! (b) decide the functions Verus cannot take (let-chains: Conflict::merge; Max<bool>/Max<char>/Max<()>
//! whose `Ord` vstd does not specify; Point::partial_cmp which panics outside its precondition).
use core::cmp::Ordering::*;

use lattices::{Conflict, DomPair, IsBot, IsTop, LatticeFrom, Max, Merge, Min, Pair, Point, WithBot, WithTop};

use crate::sym::Sym;

fn merged<T: Merge<T>>(mut a: T, b: T) -> T {
    a.merge(b);
    a
}

/// C01: grouping, order, repetition.
fn c01_aci<T: Sym + Merge<T> + Clone + PartialEq>() {
    let (a, b, c) = (T::sym(), T::sym(), T::sym());
    kani::assert(merged(merged(a.clone(), b.clone()), c.clone()) == merged(a.clone(), merged(b.clone(), c.clone())), "C01:associative");
    kani::assert(merged(a.clone(), b.clone()) == merged(b.clone(), a.clone()), "C01:commutative");
    kani::assert(merged(a.clone(), a.clone()) == a, "C01:idempotent");
    kani::assert(merged(merged(a.clone(), b.clone()), b.clone()) == merged(a.clone(), b.clone()), "C01:repetition");
}

/// C02: the flag.
fn c02_changed<T: Sym + Merge<T> + Clone + PartialEq + PartialOrd>() {
    let (a, b) = (T::sym(), T::sym());
    let mut x = a.clone();
    let changed = x.merge(b.clone());
    kani::assert(changed == (x != a), "C02:changed_iff_value_differs");
    kani::assert(changed == !(b <= a), "C02:changed_iff_other_not_below");
    kani::assert(a <= x, "C02:merge_never_shrinks");
    kani::assert(!changed || a < x, "C02:changed_means_strictly_greater");
}

/// C03: order vs merge, partial-order laws, eq.
fn c03_order<T: Sym + Merge<T> + Clone + PartialEq + PartialOrd>() {
    let (a, b, c) = (T::sym(), T::sym(), T::sym());
    let mut bb = b.clone();
    let ch = bb.merge(a.clone());
    kani::assert((a <= b) == !ch, "C03:le_iff_merge_into_unchanged");
    kani::assert((a == b) == (a.partial_cmp(&b) == Some(Equal)), "C03:eq_iff_cmp_equal");
    kani::assert((a == b) == (a <= b && b <= a), "C03:eq_is_induced_equivalence");
    kani::assert(a.partial_cmp(&a) == Some(Equal), "C03:reflexive");
    kani::assert(a.partial_cmp(&b) == b.partial_cmp(&a).map(|o| o.reverse()), "C03:dual");
    kani::assert(!(a <= b && b <= c) || a <= c, "C03:transitive");
    kani::assert(!(a < b && b < c) || a < c, "C03:transitive_strict");
    kani::assert(!(a == b && b == c) || a == c, "C03:eq_transitive");
}

/// C03: is_bot exactly for the least element; default is bottom.
fn c03_bot<T: Sym + IsBot + Default + PartialOrd>() {
    let (a, b) = (T::sym(), T::sym());
    let d = T::default();
    kani::assert(d.is_bot(), "C03:default_is_bot");
    kani::assert(d <= b, "C03:default_is_least");
    kani::assert(a.is_bot() == (a <= d), "C03:is_bot_iff_least");
}

/// C03: is_bot without a Default witness (Conflict has no bottom; Point): is_bot ⇒ least.
fn c03_bot_nodefault<T: Sym + IsBot + PartialOrd>() {
    let (a, b) = (T::sym(), T::sym());
    kani::assert(!a.is_bot() || a <= b, "C03:is_bot_implies_least");
}

/// C03: is_top exactly for the greatest element (witness-based).
fn c03_top<T: Sym + IsTop + PartialOrd>() {
    let (a, b) = (T::sym(), T::sym());
    kani::assert(!a.is_top() || b <= a, "C03:is_top_implies_greatest");
    if let Some(t) = T::top_w() {
        kani::assert(b <= t, "C03:top_witness_is_greatest");
        kani::assert(a.is_top() == (t <= a), "C03:is_top_iff_greatest");
    }
}

/// C04: lattice_from preserves the value.
fn c04_from<T: Sym + LatticeFrom<T> + Clone + PartialEq>() {
    let a = T::sym();
    // C01 as well: container merges adopt values through lattice_from, so their ACI laws rely on it
    kani::assert(T::lattice_from(a.clone()) == a, "C04+C01:lattice_from_preserves_value");
}

macro_rules! twins {
    ($modname:ident, $t:ty, [$($which:ident),*]) => {
        pub(crate) mod $modname {
            use super::*;
            $( twins!(@one $which, $t); )*
        }
    };
    (@one aci, $t:ty) => { #[kani::proof] pub(crate) fn aci() { c01_aci::<$t>() } };
    (@one changed, $t:ty) => { #[kani::proof] pub(crate) fn changed() { c02_changed::<$t>() } };
    (@one order, $t:ty) => { #[kani::proof] pub(crate) fn order() { c03_order::<$t>() } };
    (@one bot, $t:ty) => { #[kani::proof] pub(crate) fn bot() { c03_bot::<$t>() } };
    (@one botnd, $t:ty) => { #[kani::proof] pub(crate) fn botnd() { c03_bot_nodefault::<$t>() } };
    (@one top, $t:ty) => { #[kani::proof] pub(crate) fn top() { c03_top::<$t>() } };
    (@one from, $t:ty) => { #[kani::proof] pub(crate) fn from() { c04_from::<$t>() } };
}

twins!(max_u8, Max<u8>, [aci, changed, order, bot, top, from]);
twins!(min_u8, Min<u8>, [aci, changed, order, bot, top, from]);
// Max<bool>/Min<bool> are NOT instantiated: Kani 0.68/CBMC encodes `bool < bool` as a signed 1-bit
// comparison (true < false), spiked with `(a < b) == (!a && b)` failing on primitive bools -- a tool
// defect, not a hydro one.  Their is_bot/is_top/default are decided in the Verus unit lat_ord_small instead.
twins!(max_char, Max<char>, [aci, changed, order, bot, top, from]);
twins!(min_char, Min<char>, [aci, changed, order, bot, top, from]);
twins!(max_unit, Max<()>, [aci, changed, order, botnd, top, from]);
twins!(min_unit, Min<()>, [aci, changed, order, botnd, top, from]);
twins!(withbot_max, WithBot<Max<u8>>, [aci, changed, order, bot, top, from]);
twins!(withtop_max, WithTop<Max<u8>>, [aci, changed, order, bot, top, from]);
twins!(withtop_min, WithTop<Min<u8>>, [aci, changed, order, bot, top, from]);
twins!(withbot_withtop, WithBot<WithTop<Min<u8>>>, [aci, changed, order, bot, top, from]);
twins!(withtop_withbot, WithTop<WithBot<Max<u8>>>, [aci, changed, order, bot, top, from]);
twins!(pair_bt, Pair<WithBot<Max<u8>>, WithTop<Min<u8>>>, [aci, changed, order, bot, top, from]);
twins!(dompair, DomPair<Max<u8>, Min<u8>>, [aci, changed, order, bot, top, from]);
twins!(dompair_wb, DomPair<WithBot<Max<u8>>, WithBot<Min<u8>>>, [aci, changed, order, bot, top, from]);
twins!(conflict_u8, Conflict<u8>, [aci, changed, order, botnd, top, from]);
twins!(conflict_bool, Conflict<bool>, [aci, changed, order, botnd, top, from]);
twins!(withbot_conflict, WithBot<Conflict<u8>>, [aci, changed, order, bot, top, from]);
twins!(unit, (), [aci, changed, order, botnd, top, from]);

/// Known finding (DESIGN §6.3): for a one-point inner lattice every `WithBot` value is equal, hence
/// greatest, yet `is_top()` is false for `None`.  One assertion per value so the failing input is named.
#[kani::proof]
pub(crate) fn c03_withbot_unit_is_top() {
    let none: WithBot<()> = WithBot::new(None);
    let some: WithBot<()> = WithBot::new(Some(()));
    kani::assert(none == some && some <= none && none <= some, "C03:withbot_unit_all_values_equal");
    kani::assert(some.is_top(), "C03:is_top_iff_greatest[WithBot<()>(Some(()))]");
    kani::assert(none.is_top(), "C03:is_top_iff_greatest[WithBot<()>(None)]");
}

/// Known finding (DESIGN section 12, 6.6): over a FINITE item domain the full set is the greatest element of the set-union lattice,
/// yet `SetUnion::is_top` is constantly false.  The other values of the lattice over `bool` (the empty set and the two
/// singletons, here as `OptionSet`) are all strictly below the full set.
#[kani::proof]
#[kani::unwind(4)]
pub(crate) fn c03_set_union_full_bool_is_top() {
    use lattices::collections::{ArraySet, OptionSet};
    use lattices::set_union::SetUnion;
    let full = SetUnion::new(ArraySet::<bool, 2>([false, true]));
    let other = SetUnion::new(OptionSet::<bool>(kani::any()));
    kani::assert(other.partial_cmp(&full) == Some(Less) && full.partial_cmp(&full) == Some(Equal), "C03:full_bool_set_is_above_every_value");
    kani::assert(full.is_top(), "C03:is_top_iff_greatest[SetUnion<ArraySet<bool,2>>{false,true}]");
}

/// Point: "point lattices only ever merge equal values" is the precondition; under it merge reports
/// no change, comparison is Equal, and it is both bottom and top of its one-point class.
#[kani::proof]
pub(crate) fn point_u8() {
    let a: Point<u8, ()> = Point::new(kani::any());
    let b: Point<u8, ()> = Point::new(kani::any());
    kani::assume(a.val == b.val);
    let mut x = a;
    kani::assert(!x.merge(b), "C02:point_merge_unchanged");
    kani::assert(x == a && x == b, "C01:point_merge_value");
    kani::assert(a.partial_cmp(&b) == Some(Equal), "C03:point_cmp_equal");
    kani::assert(a.is_bot() && a.is_top(), "C03:point_bot_top");
    kani::assert(Point::<u8, ()>::lattice_from(a) == a, "C04:lattice_from_preserves_value");
}

/// DomPair with a key lattice that is NOT totally ordered (Pair of Max): outside the lattice claim of C01, but the
/// documented join for incomparable keys is "both the keys and the values are merged" (C04).  Complete for u8 payloads.
#[kani::proof]
pub(crate) fn dompair_incomparable_keys() {
    type K = Pair<Max<u8>, Max<u8>>;
    let (ka, kb): (K, K) = (Sym::sym(), Sym::sym());
    let (va, vb): (Max<u8>, Max<u8>) = (Sym::sym(), Sym::sym());
    kani::assume(ka.partial_cmp(&kb).is_none());
    let mut x = DomPair::new(ka, va);
    let changed = x.merge(DomPair::new(kb, vb));
    let (k, v) = x.into_reveal();
    kani::assert(changed, "C02:dompair_incomparable_keys_always_change");
    kani::assert(k == merged(ka, kb), "C04:dompair_incomparable_keys_merges_keys");
    kani::assert(v == merged(va, vb), "C04:dompair_incomparable_keys_merges_values");
}
