//! C05 (tombstone set-union against the set model, TinySet standing for any TombstoneSet/Set implementation),
//! C06 (Atomize), C07 (CartesianProductBimorphism / KeyedBimorphism against their models).  Bounded by operand size.
use core::cell::Cell;
use core::cmp::Ordering::*;

use cc_traits::Remove;
use lattices::collections::{ArraySet, SingletonSet};
use lattices::map_union::{KeyedBimorphism, MapUnion};
use lattices::set_union::{CartesianProductBimorphism, SetUnion};
use lattices::map_union_with_tombstones::MapUnionWithTombstones;
use lattices::set_union_with_tombstones::SetUnionWithTombstones;
use lattices::Max;
use lattices::tombstone::TombstoneSet;
use lattices::union_find::UnionFind;
use lattices::{Atomize, IsBot, IsTop, LatticeBimorphism, Merge, WithBot, WithTop};

use crate::tiny::{TinyMap, TinySet};

// harness glue: TinySet as a removable set and as a TombstoneSet (the contract's executable form)
impl<'a> Remove<&'a u8> for TinySet {
    fn remove(&mut self, key: &'a u8) -> Option<u8> {
        let mut i = 0;
        while i < self.n {
            if self.v[i] == *key { let last = self.n - 1; self.v[i] = self.v[last]; self.n = last; return Some(*key); }
            i += 1;
        }
        None
    }
}
impl TombstoneSet<u8> for TinySet {
    fn contains(&self, key: &u8) -> bool { self.has(*key) }
    fn union_with(&mut self, other: &Self) -> usize {
        let old = self.n;
        let mut i = 0;
        while i < other.n { self.insert(other.v[i]); i += 1; }
        self.n - old
    }
}

// ---------------------------------------------------------------------------------------------- C05
const DOM: u8 = 4;
fn small_set(max: u8) -> TinySet {
    let mut s = TinySet::default();
    let n: u8 = kani::any();
    kani::assume(n <= max);
    let (a, b): (u8, u8) = (kani::any(), kani::any());
    kani::assume(a < DOM && b < DOM);
    if n >= 1 { s.insert(a); }
    if n >= 2 { kani::assume(a != b); s.insert(b); }
    s
}
type Ts = SetUnionWithTombstones<TinySet, TinySet>;
/// a well-formed value: live set and tombstones disjoint (the type's invariant)
fn sym_ts() -> (TinySet, TinySet) {
    let (s, t) = (small_set(2), small_set(2));
    let mut i = 0;
    while i < s.n { kani::assume(!t.has(s.v[i])); i += 1; }
    (s, t)
}
fn same_set(a: &TinySet, b: &TinySet) -> bool {
    let mut x = 0u8; let mut ok = true;
    while x < DOM { if a.has(x) != b.has(x) { ok = false; } x += 1; }
    ok && a.n == b.n
}
/// the documented model: tombstones' = t1 ∪ t2, live' = (s1 ∪ s2) \ tombstones'
fn model_join(a: &(TinySet, TinySet), b: &(TinySet, TinySet), x: u8) -> (bool, bool) {
    let dead = a.1.has(x) || b.1.has(x);
    ((a.0.has(x) || b.0.has(x)) && !dead, dead)
}
fn model_eq_after(a: &(TinySet, TinySet), b: &(TinySet, TinySet), c: &(TinySet, TinySet)) -> bool {
    // join(a, b) == c, element-wise over the domain
    let mut x = 0u8; let mut ok = true;
    while x < DOM { if model_join(a, b, x) != (c.0.has(x), c.1.has(x)) { ok = false; } x += 1; }
    ok
}

#[kani::proof] #[kani::unwind(8)]
pub(crate) fn tombstone_set_merge() {
    let (a, b) = (sym_ts(), sym_ts());
    let mut x: Ts = SetUnionWithTombstones::new(a.0, a.1);
    let changed = x.merge(SetUnionWithTombstones::new(b.0, b.1));
    let (s, t) = x.into_reveal();
    let after = (s, t);
    // C01 / C04 ride on the same fact: (t1 ∪ t2, (s1 ∪ s2) minus (t1 ∪ t2)) is an associative, commutative, idempotent join on well-formed values
    kani::assert(model_eq_after(&a, &b, &after), "C05+C01+C04:merge_is_union_of_tombstones_and_live_minus_tombstones");
    let mut i = 0;
    while i < s.n { kani::assert(!t.has(s.v[i]), "C05:live_and_tombstones_stay_disjoint_nothing_resurrected"); i += 1; }
    let unchanged = same_set(&s, &a.0) && same_set(&t, &a.1);
    kani::assert(changed == !unchanged, "C02:changed_iff_value_differs");
}

#[kani::proof] #[kani::unwind(8)]
pub(crate) fn tombstone_set_cmp() {
    let (a, b) = (sym_ts(), sym_ts());
    let (x, y): (Ts, Ts) = (SetUnionWithTombstones::new(a.0, a.1), SetUnionWithTombstones::new(b.0, b.1));
    // induced order from the model join: a <= b  iff  join(b, a) == b
    let le = model_eq_after(&b, &a, &b);
    let ge = model_eq_after(&a, &b, &a);
    let want = if le && ge { Some(Equal) } else if le { Some(Less) } else if ge { Some(Greater) } else { None };
    kani::assert(x.partial_cmp(&y) == want, "C03:tombstone_partial_cmp_is_induced_by_merge");
    kani::assert((x == y) == (same_set(&a.0, &b.0) && same_set(&a.1, &b.1)), "C03:tombstone_eq_is_same_live_and_tombstones");
    kani::assert(x.is_bot() == (a.0.n == 0 && a.1.n == 0) && !x.is_top(), "C03:tombstone_is_bot_iff_both_empty");
}

/// a deleted item never comes back: after merging a tombstone for x, no later merge of live x resurrects it
#[kani::proof] #[kani::unwind(8)]
pub(crate) fn tombstone_set_no_resurrection_history() {
    let a = sym_ts();
    let mut v: Ts = SetUnionWithTombstones::new(a.0, a.1);
    let x: u8 = kani::any();
    kani::assume(x < DOM);
    let mut tomb = TinySet::default(); tomb.insert(x);
    v.merge(SetUnionWithTombstones::new(TinySet::default(), tomb));
    kani::assert(!v.as_reveal_ref().0.has(x) && v.as_reveal_ref().1.has(x), "C05:tombstone_deletes_item");
    let mut live = TinySet::default(); live.insert(x);
    let later = small_set(1);
    kani::assume(!later.has(x));
    live.extend(later);
    v.merge(SetUnionWithTombstones::new(live, TinySet::default()));
    kani::assert(!v.as_reveal_ref().0.has(x) && v.as_reveal_ref().1.has(x), "C05:deleted_item_never_reappears");
}

/// C04: lattice_from keeps live set and tombstones apart (a representation change must not change the value)
#[kani::proof] #[kani::unwind(8)]
pub(crate) fn tombstone_set_lattice_from() {
    use lattices::LatticeFrom;
    let a = sym_ts();
    let f: Ts = LatticeFrom::lattice_from(SetUnionWithTombstones::new(a.0, a.1));
    let (live, tomb) = f.into_reveal();
    kani::assert(same_set(&live, &a.0), "C04+C01:tombstone_set_lattice_from_keeps_live_items");
    kani::assert(same_set(&tomb, &a.1), "C04+C01:tombstone_set_lattice_from_keeps_tombstones");
    // container lattices (MapUnion on a new key, VecUnion extension, WithBot's None arm, DomPair's dominated arm) adopt a value through
    // lattice_from: their merge is ACI only if lattice_from preserves the value

}

// tombstone MAP variant: keys over a 4-value domain, values Max<u8> (0 = bottom = invisible)
type Tm = MapUnionWithTombstones<TinyMap<Max<u8>>, TinySet>;
fn small_map(max: u8) -> TinyMap<Max<u8>> {
    let mut m = TinyMap::<Max<u8>>::default();
    let n: u8 = kani::any();
    kani::assume(n <= max);
    let (a, b): (u8, u8) = (kani::any(), kani::any());
    kani::assume(a < DOM && b < DOM);
    if n >= 1 { m.insert(a, Max::new(kani::any())); }
    if n >= 2 { kani::assume(a != b); m.insert(b, Max::new(kani::any())); }
    m
}
fn mat(m: &TinyMap<Max<u8>>, k: u8) -> u8 { match m.pos(k) { Some(i) => m.v[i].into_reveal(), None => 0 } }
fn sym_tm() -> (TinyMap<Max<u8>>, TinySet) { sym_tm_n(2) }
fn sym_tm_n(max: u8) -> (TinyMap<Max<u8>>, TinySet) {
    let (m, t) = (small_map(max), small_set(max));
    let mut i = 0;
    while i < m.n { kani::assume(!t.has(m.k[i])); i += 1; }   // invariant: no live entry under a tombstone
    (m, t)
}
#[kani::proof] #[kani::unwind(8)]
pub(crate) fn tombstone_map_merge() { tombstone_map_merge_of(sym_tm(), sym_tm()) }
/// quick-tier instance: at most one live entry and one tombstone per operand
#[kani::proof] #[kani::unwind(8)]
pub(crate) fn tombstone_map_merge_one_entry() { tombstone_map_merge_of(sym_tm_n(1), sym_tm_n(1)) }
fn tombstone_map_merge_of(a: (TinyMap<Max<u8>>, TinySet), b: (TinyMap<Max<u8>>, TinySet)) {
    let mut x: Tm = MapUnionWithTombstones::new(a.0, a.1);
    let changed = x.merge(MapUnionWithTombstones::new(b.0, b.1));
    let (m, t) = x.into_reveal();
    let mut differs = false;
    let mut k = 0u8;
    while k < DOM {
        let dead = a.1.has(k) || b.1.has(k);
        kani::assert(t.has(k) == dead, "C05:map_merge_tombstones_are_the_union");
        let want = if dead { 0 } else { mat(&a.0, k).max(mat(&b.0, k)) };
        kani::assert(mat(&m, k) == want, "C05:map_merge_is_keywise_merge_minus_tombstones");
        if dead { kani::assert(m.pos(k).is_none(), "C05:no_live_entry_under_a_tombstone_nothing_resurrected"); }
        if mat(&m, k) != mat(&a.0, k) || t.has(k) != a.1.has(k) { differs = true; }
        k += 1;
    }
    kani::assert(changed == differs, "C02:changed_iff_value_differs");
}

// ---------------------------------------------------------------------------------------------- C06
fn sym_tiny2() -> TinySet { let mut s = small_set(2); let _ = &mut s; s }

/// SetUnion: every atom is a non-bottom singleton, no atoms iff bottom, atoms merge back to the value
#[kani::proof] #[kani::unwind(8)]
pub(crate) fn atomize_set_union() {
    let a = sym_tiny2();
    let v = SetUnion::new(a);
    let was_bot = v.is_bot();
    let mut re: SetUnion<TinySet> = Default::default();
    let mut count = 0;
    for atom in v.atomize() {
        kani::assert(!atom.is_bot(), "C06:no_bottom_atom");
        re.merge(atom);
        count += 1;
    }
    kani::assert((count == 0) == was_bot, "C06:no_atoms_iff_bottom");
    kani::assert(same_set(re.as_reveal_ref(), &a), "C06:atoms_merge_back_to_the_value");
}

/// WithBot / WithTop wrappers around SetUnion (sets of <= `max` elements)
fn atomize_with_bot_of(max: u8) {
    let a = small_set(max);
    let some: bool = kani::any();
    let wb: WithBot<SetUnion<TinySet>> = WithBot::new(if some { Some(SetUnion::new(a)) } else { None });
    let was_bot = wb.is_bot();
    let mut re: WithBot<SetUnion<TinySet>> = Default::default();
    let mut count = 0;
    for atom in wb.atomize() { kani::assert(!atom.is_bot(), "C06:no_bottom_atom"); re.merge(atom); count += 1; }
    kani::assert((count == 0) == was_bot, "C06:no_atoms_iff_bottom");
    kani::assert(re == WithBot::new(if some { Some(SetUnion::new(a)) } else { None }), "C06:atoms_merge_back_to_the_value");
}
fn atomize_with_top_of(max: u8) {
    let a = small_set(max);
    let some: bool = kani::any();
    let wt: WithTop<SetUnion<TinySet>> = WithTop::new(if some { Some(SetUnion::new(a)) } else { None });
    let was_bot = wt.is_bot();
    let mut re: WithTop<SetUnion<TinySet>> = Default::default();
    let mut count = 0;
    for atom in wt.atomize() { kani::assert(!atom.is_bot(), "C06:no_bottom_atom"); re.merge(atom); count += 1; }
    kani::assert((count == 0) == was_bot, "C06:no_atoms_iff_bottom");
    kani::assert(re == WithTop::new(if some { Some(SetUnion::new(a)) } else { None }), "C06:atoms_merge_back_to_the_value");
}
/// WithBot<SetUnion> with CONCRETE shapes (None / Some(empty set) / Some(one-element set); the element is symbolic).  MEASURED: only the
/// `None` shape is within reach (1 s); the `Some` shapes exceed 900 s like the symbolic-shape version (Box<dyn Iterator> + flat_map): `deep_`, no tier
fn atomize_with_bot_shape(some: bool, n: usize) {
    let mut a = TinySet::default();
    if n == 1 { a.insert(kani::any()); }
    let wb: WithBot<SetUnion<TinySet>> = WithBot::new(if some { Some(SetUnion::new(a)) } else { None });
    let was_bot = wb.is_bot();
    kani::assert(was_bot == (!some || n == 0), "C06:no_atoms_iff_bottom");
    let mut re: WithBot<SetUnion<TinySet>> = Default::default();
    let mut count = 0;
    for atom in wb.atomize() { kani::assert(!atom.is_bot(), "C06:no_bottom_atom"); re.merge(atom); count += 1; }
    kani::assert((count == 0) == was_bot, "C06:no_atoms_iff_bottom");
    kani::assert(re == WithBot::new(if some { Some(SetUnion::new(a)) } else { None }), "C06:atoms_merge_back_to_the_value");
}
#[kani::proof] #[kani::unwind(8)] pub(crate) fn atomize_with_bot_shape_none() { atomize_with_bot_shape(false, 0) }
#[kani::proof] #[kani::unwind(8)] pub(crate) fn deep_atomize_with_bot_shape_some_empty() { atomize_with_bot_shape(true, 0) }
#[kani::proof] #[kani::unwind(8)] pub(crate) fn deep_atomize_with_bot_shape_some_one() { atomize_with_bot_shape(true, 1) }
#[kani::proof] #[kani::unwind(8)] pub(crate) fn deep_atomize_with_bot_one() { atomize_with_bot_of(1) }   // > 40 min of CBMC: in NO tier
#[kani::proof] #[kani::unwind(8)] pub(crate) fn atomize_with_top_one() { atomize_with_top_of(1) }
/// two-element instances: > 30 min of CBMC each (Box<dyn Iterator> + flat_map); kept for the record, in NO tier
#[kani::proof] #[kani::unwind(8)] pub(crate) fn deep_atomize_with_bot_two() { atomize_with_bot_of(2) }
#[kani::proof] #[kani::unwind(8)] pub(crate) fn deep_atomize_with_top_two() { atomize_with_top_of(2) }

/// MapUnion<key -> SetUnion>: atoms are single (key, singleton) entries
#[kani::proof] #[kani::unwind(8)] pub(crate) fn deep_atomize_map_union_one() { atomize_map_union_of(1) }   // > 40 min of CBMC: in NO tier
/// > 30 min of CBMC; kept for the record, in NO tier
#[kani::proof] #[kani::unwind(8)] pub(crate) fn deep_atomize_map_union_two() { atomize_map_union_of(2) }
fn atomize_map_union_of(max: u8) {
    let mut m = TinyMap::<SetUnion<TinySet>>::default();
    let k: u8 = kani::any();
    let a = small_set(max);
    if kani::any() { m.insert(k, SetUnion::new(a)); }
    let had = m.n == 1;
    let v = MapUnion::new(m);
    let was_bot = v.is_bot();
    let mut re: MapUnion<TinyMap<SetUnion<TinySet>>> = Default::default();
    let mut count = 0;
    for atom in v.atomize() { kani::assert(!atom.is_bot(), "C06:no_bottom_atom"); re.merge(atom); count += 1; }
    kani::assert((count == 0) == was_bot, "C06:no_atoms_iff_bottom");
    let r = re.into_reveal();
    if had && a.n > 0 {
        kani::assert(r.n == 1 && r.k[0] == k && same_set(r.v[0].as_reveal_ref(), &a), "C06:atoms_merge_back_to_the_value");
    } else {
        kani::assert(r.n == 0, "C06:atoms_merge_back_to_the_value");
    }
}

/// MapUnion::atomize against the Atomize CONTRACT of the value type (modular): `HVal` is a havoc value lattice whose atom iterator
/// yields its atoms in order and answers ANY `size_hint` the Iterator contract allows (lower <= remaining <= upper).
/// Expected: for every entry (k, v) and every atom a of v, in order, exactly one atom {k: a}.
#[derive(Clone, Copy, Default, Debug)]
pub(crate) struct HVal { n: usize, ids: [u8; 2] }
#[derive(Clone, Copy, Debug, PartialEq)]
pub(crate) struct HAtom(u8);
impl IsBot for HAtom { fn is_bot(&self) -> bool { false } }
impl Merge<HAtom> for HVal { fn merge(&mut self, other: HAtom) -> bool { if self.n < 2 { self.ids[self.n] = other.0; self.n += 1; true } else { false } } }
impl lattices::LatticeFrom<HAtom> for HVal { fn lattice_from(other: HAtom) -> Self { HVal { n: 1, ids: [other.0, 0] } } }
pub(crate) struct HIter { v: HVal, next: usize }
impl Iterator for HIter {
    type Item = HAtom;
    fn next(&mut self) -> Option<HAtom> { if self.next < self.v.n { self.next += 1; Some(HAtom(self.v.ids[self.next - 1])) } else { None } }
    fn size_hint(&self) -> (usize, Option<usize>) {
        let rem = self.v.n - self.next;
        let lo: usize = kani::any();
        kani::assume(lo <= rem);
        let hi: Option<usize> = if kani::any() { None } else { let h: usize = kani::any(); kani::assume(h >= rem && h <= 4); Some(h) };
        (lo, hi)
    }
}
impl Atomize for HVal { type Atom = HAtom; type AtomIter = HIter; fn atomize(self) -> HIter { HIter { v: self, next: 0 } } }

#[kani::proof] #[kani::unwind(8)]
pub(crate) fn atomize_map_union_any_value_iterator() {
    let mut m = TinyMap::<HVal>::default();
    let (k1, k2): (u8, u8) = (kani::any(), kani::any());
    kani::assume(k1 != k2);
    let (v1, v2): (HVal, HVal) = (HVal { n: kani::any(), ids: kani::any() }, HVal { n: kani::any(), ids: kani::any() });
    kani::assume(v1.n <= 2 && v2.n <= 2);
    let entries: usize = kani::any();
    kani::assume(entries <= 2);
    if entries >= 1 { m.insert(k1, v1); }
    if entries >= 2 { m.insert(k2, v2); }
    // expected atoms, in order
    let mut exp: [(u8, u8); 4] = [(0, 0); 4];
    let mut ne = 0;
    if entries >= 1 { let mut i = 0; while i < v1.n { exp[ne] = (k1, v1.ids[i]); ne += 1; i += 1; } }
    if entries >= 2 { let mut i = 0; while i < v2.n { exp[ne] = (k2, v2.ids[i]); ne += 1; i += 1; } }
    let mut got = 0;
    for atom in MapUnion::new(m).atomize() {
        let lattices::collections::SingletonMap(k, a) = atom.into_reveal();
        kani::assert(got < ne && (k, a.0) == exp[got], "C06:map_union_atoms_are_exactly_key_times_value_atoms");
        got += 1;
    }
    kani::assert(got == ne, "C06:map_union_yields_every_value_atom_under_its_key");
}

/// WithBot::atomize / WithTop::atomize against the Atomize CONTRACT of the inner type (modular, like the MapUnion harness above): the inner
/// value is the havoc `HVal`, whose atom iterator answers ANY `size_hint` the Iterator contract allows.  Expected: WithBot yields exactly the
/// inner atoms, wrapped, in order (none for `None`); WithTop the same for `Some`, and the single atom `None` (top) for `None`.
#[kani::proof] #[kani::unwind(8)]
pub(crate) fn atomize_with_bot_any_inner_iterator() {
    let some: bool = kani::any();
    let v = HVal { n: kani::any(), ids: kani::any() };
    kani::assume(v.n <= 2);
    let wb: WithBot<HVal> = WithBot::new(if some { Some(v) } else { None });
    let ne = if some { v.n } else { 0 };
    let mut got = 0;
    for atom in wb.atomize() {
        match atom.into_reveal() {
            Some(a) => kani::assert(got < ne && a.0 == v.ids[got], "C06:with_bot_atoms_are_exactly_the_inner_atoms"),
            None => kani::assert(false, "C06:no_bottom_atom"),
        }
        got += 1;
    }
    kani::assert(got == ne, "C06:with_bot_yields_every_inner_atom_and_nothing_iff_bottom");
}
#[kani::proof] #[kani::unwind(8)]
pub(crate) fn atomize_with_top_any_inner_iterator() {
    let some: bool = kani::any();
    let v = HVal { n: kani::any(), ids: kani::any() };
    kani::assume(v.n <= 2);
    let wt: WithTop<HVal> = WithTop::new(if some { Some(v) } else { None });
    let ne = if some { v.n } else { 1 };
    let mut got = 0;
    for atom in wt.atomize() {
        match atom.into_reveal() {
            Some(a) => kani::assert(some && got < ne && a.0 == v.ids[got], "C06:with_top_atoms_are_exactly_the_inner_atoms"),
            None => kani::assert(!some && got == 0, "C06:with_top_of_none_is_its_own_single_atom"),
        }
        got += 1;
    }
    kani::assert(got == ne, "C06:with_top_yields_every_inner_atom_and_nothing_iff_bottom");
}

/// UnionFind: atoms are the non-trivial links; merging them back gives the same partition.  > 30 min of CBMC: in NO tier
#[kani::proof] #[kani::unwind(8)]
pub(crate) fn deep_atomize_union_find() {
    type Uf = UnionFind<TinyMap<Cell<u8>>>;
    let mut uf: Uf = UnionFind::new(TinyMap::default());
    let (a, b): (u8, u8) = (kani::any(), kani::any());
    kani::assume(a < 3 && b < 3);
    if kani::any() { uf.union(a, b); }
    let was_bot = uf.is_bot();
    let orig = uf.clone();
    let mut re: Uf = Default::default();
    let mut count = 0;
    for atom in uf.atomize() { kani::assert(!atom.is_bot(), "C06:no_bottom_atom"); re.merge(atom); count += 1; }
    kani::assert((count == 0) == was_bot, "C06:no_atoms_iff_bottom");
    let (c, d): (u8, u8) = (kani::any(), kani::any());
    kani::assume(c < 3 && d < 3);
    kani::assert(re.same(c, d) == orig.same(c, d), "C06:atoms_merge_back_to_the_value");
}

// ---------------------------------------------------------------------------------------------- C07
/// CartesianProductBimorphism::call against its model: out == A x B (as a set).  Distributivity over union in each
/// argument is then a fact of set algebra about the model: (A ∪ A') x B = A x B ∪ A' x B.
#[kani::proof] #[kani::unwind(8)]
pub(crate) fn cartesian_product_is_product() {
    let a = small_set(2);
    let (p, q): (u8, u8) = (kani::any(), kani::any());
    kani::assume(p != q);
    let b = ArraySet([p, q]);
    let mut f = CartesianProductBimorphism::<Vec<(u8, u8)>>::default();
    let out = f.call(SetUnion::new(a), SetUnion::new(b)).into_reveal();
    kani::assert(out.len() == a.n * 2, "C07:cartesian_product_has_every_pair_once");
    let (x, y): (u8, u8) = (kani::any(), kani::any());
    let mut found = false;
    let mut i = 0;
    while i < out.len() { if out[i] == (x, y) { found = true; } i += 1; }
    kani::assert(found == (a.has(x) && (y == p || y == q)), "C07:cartesian_product_is_exactly_the_product");
}

/// Both distributivity equations, as two-call postconditions on the real code (elements over a 4-value domain)
#[kani::proof] #[kani::unwind(8)]
pub(crate) fn cartesian_product_distributes() {
    let (a, a2) = (small_set(1), small_set(1));
    let c = SingletonSet::<u8>(kani::any());
    let mut f = CartesianProductBimorphism::<TinyPairs>::default();
    let mut au = SetUnion::new(a);
    au.merge(SetUnion::new(a2));
    let lhs = f.call(au, SetUnion::new(c)).into_reveal();
    let mut rhs = SetUnion::new(f.call(SetUnion::new(a), SetUnion::new(c)).into_reveal());
    rhs.merge(f.call(SetUnion::new(a2), SetUnion::new(c)));
    let rhs = rhs.into_reveal();
    let (x, y): (u8, u8) = (kani::any(), kani::any());
    kani::assert(lhs.has(x, y) == rhs.has(x, y), "C07:cartesian_product_distributes_over_merge_left");
}

/// tiny set of pairs for bimorphism outputs
#[derive(Clone, Copy, Default)]
pub struct TinyPairs { pub n: usize, pub v: [(u8, u8); 4] }
impl TinyPairs {
    pub fn has(&self, x: u8, y: u8) -> bool { let mut i = 0; while i < self.n { if self.v[i] == (x, y) { return true; } i += 1; } false }
    pub fn ins(&mut self, p: (u8, u8)) { if !self.has(p.0, p.1) { assert!(self.n < 4); self.v[self.n] = p; self.n += 1; } }
}
impl FromIterator<(u8, u8)> for TinyPairs { fn from_iter<I: IntoIterator<Item = (u8, u8)>>(it: I) -> Self { let mut s = TinyPairs::default(); for p in it { s.ins(p); } s } }
impl Extend<(u8, u8)> for TinyPairs { fn extend<I: IntoIterator<Item = (u8, u8)>>(&mut self, it: I) { for p in it { self.ins(p); } } }
impl IntoIterator for TinyPairs { type Item = (u8, u8); type IntoIter = core::iter::Take<core::array::IntoIter<(u8, u8), 4>>; fn into_iter(self) -> Self::IntoIter { self.v.into_iter().take(self.n) } }
impl cc_traits::Len for TinyPairs { fn len(&self) -> usize { self.n } }

/// KeyedBimorphism (value bimorphism = cartesian product) against its model: keys = common keys, value = product of values
/// the same contract with CONCRETE keys (same key / different keys): the map double's control flow is then concrete
fn keyed_bimorphism_keys(ka: u8, kb: u8) {
    let mut ma = TinyMap::<SetUnion<TinySet>>::default();
    let mut mb = TinyMap::<SetUnion<TinySet>>::default();
    let (sa, sb) = (small_set(1), small_set(1));
    ma.insert(ka, SetUnion::new(sa));
    mb.insert(kb, SetUnion::new(sb));
    let mut f = KeyedBimorphism::<TinyMap<SetUnion<TinyPairs>>, _>::new(CartesianProductBimorphism::<TinyPairs>::default());
    let out = f.call(MapUnion::new(ma), MapUnion::new(mb)).into_reveal();
    if ka == kb {
        kani::assert(out.n == 1 && out.k[0] == ka, "C07:keyed_bimorphism_keeps_exactly_the_common_keys");
        let (x, y): (u8, u8) = (kani::any(), kani::any());
        kani::assert(out.v[0].as_reveal_ref().has(x, y) == (sa.has(x) && sb.has(y)), "C07:keyed_bimorphism_applies_value_bimorphism_per_key");
    } else {
        kani::assert(out.n == 0, "C07:keyed_bimorphism_keeps_exactly_the_common_keys");
    }
}
/// KeyedBimorphism::call MODULARLY, several entries per side: the value bimorphism is a cheap tagging function (a, b) -> a * 256 + b on
/// Max (it distributes over max in each argument), keys are CONCRETE, values symbolic.  Expected (the key-wise model): the output holds exactly
/// the keys common to both maps, each once, with the value bimorphism's output for that key's two values -- whatever the relative sizes
/// of the two maps and wherever the unmatched keys sit in either iteration order.
pub(crate) struct TagBim;
impl lattices::LatticeBimorphism<Max<u8>, Max<u8>> for TagBim {
    type Output = Max<u16>;
    fn call(&mut self, a: Max<u8>, b: Max<u8>) -> Max<u16> { Max::new(((a.into_reveal() as u16) << 8) | b.into_reveal() as u16) }
}
fn keyed_bimorphism_shape<const NA: usize, const NB: usize>(ka: [u8; NA], kb: [u8; NB]) {
    let mut ma = TinyMap::<Max<u8>>::default();
    let mut mb = TinyMap::<Max<u8>>::default();
    let va: [u8; NA] = kani::any();
    let vb: [u8; NB] = kani::any();
    let mut i = 0;
    while i < NA { ma.insert(ka[i], Max::new(va[i])); i += 1; }
    let mut j = 0;
    while j < NB { mb.insert(kb[j], Max::new(vb[j])); j += 1; }
    let mut f = KeyedBimorphism::<TinyMap<Max<u16>>, _>::new(TagBim);
    let out = f.call(MapUnion::new(ma), MapUnion::new(mb)).into_reveal();
    let mut common = 0;
    let mut i = 0;
    while i < NA {
        let mut j = 0;
        let mut hit = false;
        while j < NB {
            if ka[i] == kb[j] {
                hit = true;
                common += 1;
                let want = ((va[i] as u16) << 8) | vb[j] as u16;
                match out.pos(ka[i]) {
                    Some(p) => kani::assert(out.v[p].into_reveal() == want, "C07:keyed_bimorphism_applies_value_bimorphism_per_key"),
                    None => kani::assert(false, "C07:keyed_bimorphism_keeps_exactly_the_common_keys"),
                }
            }
            j += 1;
        }
        if !hit { kani::assert(out.pos(ka[i]).is_none(), "C07:keyed_bimorphism_keeps_exactly_the_common_keys"); }
        i += 1;
    }
    kani::assert(out.n == common, "C07:keyed_bimorphism_keeps_exactly_the_common_keys");
}
#[kani::proof] #[kani::unwind(8)] pub(crate) fn keyed_bimorphism_multi_a3_b2_first_of_b_unmatched() { keyed_bimorphism_shape([1, 2, 3], [0, 2]) }
#[kani::proof] #[kani::unwind(8)] pub(crate) fn keyed_bimorphism_multi_a2_b3_first_of_a_unmatched() { keyed_bimorphism_shape([0, 2], [1, 2, 3]) }
#[kani::proof] #[kani::unwind(8)] pub(crate) fn keyed_bimorphism_multi_a3_b3_middle_unmatched() { keyed_bimorphism_shape([1, 5, 3], [3, 4, 1]) }
#[kani::proof] #[kani::unwind(8)] pub(crate) fn keyed_bimorphism_multi_a2_b2_last_unmatched() { keyed_bimorphism_shape([2, 9], [2, 8]) }
#[kani::proof] #[kani::unwind(8)] pub(crate) fn keyed_bimorphism_same_key() { keyed_bimorphism_keys(7, 7) }
#[kani::proof] #[kani::unwind(8)] pub(crate) fn keyed_bimorphism_different_keys() { keyed_bimorphism_keys(7, 9) }

#[kani::proof] #[kani::unwind(8)]
pub(crate) fn deep_keyed_bimorphism_is_keywise() {   // 30 min of CBMC on a quiet machine: in NO tier
    let mut ma = TinyMap::<SetUnion<TinySet>>::default();
    let mut mb = TinyMap::<SetUnion<TinySet>>::default();
    let (ka, kb): (u8, u8) = (kani::any(), kani::any());
    let (sa, sb) = (small_set(1), small_set(1));
    if kani::any() { ma.insert(ka, SetUnion::new(sa)); }
    if kani::any() { mb.insert(kb, SetUnion::new(sb)); }
    let (na, nb) = (ma.n, mb.n);
    let mut f = KeyedBimorphism::<TinyMap<SetUnion<TinyPairs>>, _>::new(CartesianProductBimorphism::<TinyPairs>::default());
    let out = f.call(MapUnion::new(ma), MapUnion::new(mb)).into_reveal();
    if na == 1 && nb == 1 && ka == kb {
        kani::assert(out.n == 1 && out.k[0] == ka, "C07:keyed_bimorphism_keeps_exactly_the_common_keys");
        let (x, y): (u8, u8) = (kani::any(), kani::any());
        kani::assert(out.v[0].as_reveal_ref().has(x, y) == (sa.has(x) && sb.has(y)), "C07:keyed_bimorphism_applies_value_bimorphism_per_key");
    } else {
        kani::assert(out.n == 0, "C07:keyed_bimorphism_keeps_exactly_the_common_keys");
    }
}
