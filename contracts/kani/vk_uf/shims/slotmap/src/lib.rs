//! CONTRACT DOUBLE of the two `slotmap` items dfir_lang/src/union_find.rs uses (`Key`, `SecondaryMap`): an array-backed finite map
//! over <= 4 keys with the operations the file calls (`with_capacity`, `Default`, `Clone`, `insert` returning the old value,
//! `Index` / `IndexMut` panicking on an absent key).  The real SecondaryMap is outside CBMC's reach (every harness > 1200 s);
//! its finite-map contract is the same one the Verus unit uf_dfir trusts.
use core::marker::PhantomData;
use core::ops::{Index, IndexMut};

pub const CAP: usize = 4;
pub trait Key: Copy + Eq + Default {
    fn hvx_index(&self) -> usize;
}
#[derive(Copy, Clone, PartialEq, Eq, Default, Debug)]
pub struct DefaultKey(pub u8);
impl Key for DefaultKey {
    fn hvx_index(&self) -> usize { self.0 as usize }
}

pub struct SecondaryMap<K: Key, V> { slots: [Option<V>; CAP], _k: PhantomData<K> }
impl<K: Key, V> Default for SecondaryMap<K, V> {
    fn default() -> Self { SecondaryMap { slots: core::array::from_fn(|_| None), _k: PhantomData } }
}
impl<K: Key, V: Clone> Clone for SecondaryMap<K, V> {
    fn clone(&self) -> Self { SecondaryMap { slots: self.slots.clone(), _k: PhantomData } }
}
impl<K: Key, V> SecondaryMap<K, V> {
    pub fn with_capacity(_capacity: usize) -> Self { Self::default() }
    pub fn insert(&mut self, key: K, value: V) -> Option<V> { core::mem::replace(&mut self.slots[key.hvx_index()], Some(value)) }
    pub fn contains_key(&self, key: K) -> bool { self.slots[key.hvx_index()].is_some() }
}
impl<K: Key, V> Index<K> for SecondaryMap<K, V> {
    type Output = V;
    fn index(&self, key: K) -> &V { self.slots[key.hvx_index()].as_ref().expect("invalid SecondaryMap key used") }
}
impl<K: Key, V> IndexMut<K> for SecondaryMap<K, V> {
    fn index_mut(&mut self, key: K) -> &mut V { self.slots[key.hvx_index()].as_mut().expect("invalid SecondaryMap key used") }
}
