//! C17 (partial): dfir_lang::union_find::UnionFind, whole file extracted verbatim by hvx (src/union_find.rs is generated).
#![allow(dead_code, unused_imports, clippy::all)]
pub mod union_find;
