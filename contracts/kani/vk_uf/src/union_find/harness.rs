//! Bounded: 4 keys, <= 3 symbolic unions from the empty structure, then one more call under contract.  The map behind UnionFind is the
//! array-backed CONTRACT DOUBLE of slotmap::SecondaryMap (shims/slotmap); the code of find / union / same_set is the real file, whatever
//! its implementation -- so a REWRITTEN find (which the Verus proof cannot follow) is still decided here, with a counterexample.
use slotmap::DefaultKey;

use super::*;

const D: usize = 4;
fn key(i: usize) -> DefaultKey { DefaultKey(i as u8) }
fn idx() -> usize { let x: usize = kani::any(); kani::assume(x < D); x }

#[derive(Clone, Copy)]
struct Rel { r: [[bool; D]; D] }
impl Rel {
    fn id() -> Self { let mut r = [[false; D]; D]; let mut i = 0; while i < D { r[i][i] = true; i += 1; } Rel { r } }
    fn link(&mut self, a: usize, b: usize) {
        let (ra, rb) = (self.r[a], self.r[b]);
        let mut i = 0;
        while i < D { let mut j = 0; while j < D { if (ra[i] && rb[j]) || (rb[i] && ra[j]) { self.r[i][j] = true; } j += 1; } i += 1; }
    }
}
/// a reachable state: the empty structure after `N` symbolic unions (one harness per N keeps CBMC's state small)
fn reachable<const N: usize>() -> (UnionFind<DefaultKey>, Rel) {
    let mut uf = UnionFind::with_capacity(D + 1);
    let mut rel = Rel::id();
    let mut i = 0;
    while i < N { let (a, b) = (idx(), idx()); uf.union(key(a), key(b)); rel.link(a, b); i += 1; }
    (uf, rel)
}

/// same_set is exactly the equivalence closure of the unioned pairs; a second query is unaffected by the path
/// compression of the first.
fn same_set_is_closure<const N: usize>() {
    let (mut uf, rel) = reachable::<N>();
    let (a, b, c, d) = (idx(), idx(), idx(), idx());
    kani::assert(uf.same_set(key(a), key(b)) == rel.r[a][b], "C17:same_set_is_equivalence_closure_of_unions");
    kani::assert(uf.same_set(key(c), key(d)) == rel.r[c][d], "C17:find_path_compression_keeps_the_partition");
}

/// find returns a member of the class, is idempotent, and agrees for members of one class.
fn find_is_canonical<const N: usize>() {
    let (mut uf, rel) = reachable::<N>();
    let (a, b) = (idx(), idx());
    let ra = uf.find(key(a));
    kani::assert(uf.find(ra) == ra, "C17:find_is_idempotent");
    let mut member = false;
    let mut i = 0;
    while i < D { if ra == key(i) && rel.r[a][i] { member = true; } i += 1; }
    kani::assert(member, "C17:representative_is_a_member_of_the_class");
    kani::assert((uf.find(key(b)) == ra) == rel.r[a][b], "C17:same_class_iff_same_representative");
}

/// union(a, b) returns the representative of a's class as it was before the call, and that class keeps its
/// representative (what SubgraphMerge::try_merge relies on); afterwards the classes of a and b are joined.
fn union_keeps_first_representative<const N: usize>() {
    let (mut uf, mut rel) = reachable::<N>();
    let (a, b) = (idx(), idx());
    let ra_before = uf.find(key(a));
    let r = uf.union(key(a), key(b));
    rel.link(a, b);
    kani::assert(r == ra_before, "C17:union_returns_representative_of_first_argument");
    kani::assert(uf.find(key(a)) == ra_before && uf.find(key(b)) == ra_before, "C17:first_class_keeps_its_representative");
    let (c, d) = (idx(), idx());
    kani::assert(uf.same_set(key(c), key(d)) == rel.r[c][d], "C17:union_joins_exactly_the_two_classes");
}

macro_rules! inst { ($($name:ident = $f:ident, $n:literal;)*) => { $( #[kani::proof] #[kani::unwind(7)] pub(crate) fn $name() { $f::<$n>() } )* } }
inst! {
    uf_same_set_is_closure_n0 = same_set_is_closure, 0;
    uf_same_set_is_closure_n1 = same_set_is_closure, 1;
    uf_same_set_is_closure_n2 = same_set_is_closure, 2;
    uf_find_is_canonical_n0 = find_is_canonical, 0;
    uf_find_is_canonical_n1 = find_is_canonical, 1;
    uf_find_is_canonical_n2 = find_is_canonical, 2;
    uf_union_keeps_first_representative_n0 = union_keeps_first_representative, 0;
    uf_union_keeps_first_representative_n1 = union_keeps_first_representative, 1;
    uf_union_keeps_first_representative_n2 = union_keeps_first_representative, 2;
    uf_same_set_is_closure_n3 = same_set_is_closure, 3;
    uf_find_is_canonical_n3 = find_is_canonical, 3;
    uf_union_keeps_first_representative_n3 = union_keeps_first_representative, 3;
}
