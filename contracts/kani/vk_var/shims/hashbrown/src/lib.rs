//! CONTRACT DOUBLE of `hashbrown::hash_table::{HashTable, Entry, IntoIter}` as variadics/src/variadic_collections.rs uses it: an
//! insertion-ordered list searched with the caller's `eq` closure (the hash value is ignored: by the HashTable contract `eq` decides
//! membership, the hash only narrows the search).  The real table is outside CBMC's reach beyond one entry (DESIGN.md 14.4).
pub mod hash_table {
    #[derive(Clone, Debug)]
    pub struct HashTable<T> { pub(crate) items: Vec<T> }
    pub type IntoIter<T> = std::vec::IntoIter<T>;
    pub enum Entry<'a, T> { Occupied(OccupiedEntry<'a, T>), Vacant(VacantEntry<'a, T>) }
    pub struct OccupiedEntry<'a, T> { items: &'a mut Vec<T>, idx: usize }
    pub struct VacantEntry<'a, T> { items: &'a mut Vec<T> }
    impl<T> HashTable<T> {
        pub fn new() -> Self { HashTable { items: Vec::new() } }
        pub fn with_capacity(_capacity: usize) -> Self { Self::new() }
        pub fn len(&self) -> usize { self.items.len() }
        pub fn is_empty(&self) -> bool { self.items.is_empty() }
        pub fn iter(&self) -> core::slice::Iter<'_, T> { self.items.iter() }
        pub fn drain(&mut self) -> std::vec::Drain<'_, T> { self.items.drain(..) }
        pub fn reserve(&mut self, _additional: usize, _hasher: impl Fn(&T) -> u64) {}
        pub fn find(&self, _hash: u64, mut eq: impl FnMut(&T) -> bool) -> Option<&T> {
            let mut i = 0;
            while i < self.items.len() { if eq(&self.items[i]) { return Some(&self.items[i]); } i += 1; }
            None
        }
        pub fn entry(&mut self, _hash: u64, mut eq: impl FnMut(&T) -> bool, _hasher: impl Fn(&T) -> u64) -> Entry<'_, T> {
            let mut i = 0;
            while i < self.items.len() { if eq(&self.items[i]) { return Entry::Occupied(OccupiedEntry { items: &mut self.items, idx: i }); } i += 1; }
            Entry::Vacant(VacantEntry { items: &mut self.items })
        }
    }
    impl<T> IntoIterator for HashTable<T> { type Item = T; type IntoIter = IntoIter<T>; fn into_iter(self) -> IntoIter<T> { self.items.into_iter() } }
    impl<'a, T> Entry<'a, T> {
        pub fn and_modify(self, f: impl FnOnce(&mut T)) -> Self {
            match self { Entry::Occupied(mut o) => { f(o.get_mut()); Entry::Occupied(o) } v => v }
        }
        pub fn or_insert(self, value: T) -> OccupiedEntry<'a, T> {
            match self { Entry::Occupied(o) => o, Entry::Vacant(v) => v.insert(value) }
        }
    }
    impl<'a, T> OccupiedEntry<'a, T> {
        pub fn get(&self) -> &T { &self.items[self.idx] }
        pub fn get_mut(&mut self) -> &mut T { &mut self.items[self.idx] }
    }
    impl<'a, T> VacantEntry<'a, T> {
        pub fn insert(self, value: T) -> OccupiedEntry<'a, T> { self.items.push(value); let idx = self.items.len() - 1; OccupiedEntry { items: self.items, idx } }
    }
}
