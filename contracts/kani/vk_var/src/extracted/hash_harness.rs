//! C10: VariadicHashSet / VariadicCountedHashSet -- the REAL code of variadics/src/variadic_collections.rs (extracted verbatim into this
//! crate) over a contract double of hashbrown::hash_table -- against set / multiset-of-tuples oracles.  Bounded: <= 3 inserted tuples over a
//! 2 x 2 domain.  (The same types on the real hashbrown table are checked for ONE tuple only, in crate::harness: thorough tier.)
use core::hash::{BuildHasher, Hasher};

use variadics::{var_expr, var_type};

use super::{VariadicCollection, VariadicCountedHashSet, VariadicHashSet};

type S = var_type!(u8, u8);
#[derive(Clone, Copy, Default)]
pub(crate) struct H0;
impl Hasher for H0 { fn finish(&self) -> u64 { 0 } fn write(&mut self, _: &[u8]) {} }
impl BuildHasher for H0 { type Hasher = H0; fn build_hasher(&self) -> H0 { H0 } }

fn tup() -> (u8, u8) { let t: (u8, u8) = kani::any(); kani::assume(t.0 < 2 && t.1 < 2); t }
fn count(xs: &[(u8, u8)], n: usize, t: (u8, u8)) -> usize { let mut c = 0; let mut i = 0; while i < n { if xs[i] == t { c += 1; } i += 1; } c }
fn distinct(xs: &[(u8, u8)], n: usize) -> usize { let mut d = 0; let mut i = 0; while i < n { if count(xs, i, xs[i]) == 0 { d += 1; } i += 1; } d }

/// set semantics after N inserts: insert reports "new", len counts distinct tuples, contains = membership, iter yields every distinct
/// tuple exactly once
fn hash_set_contract<const N: usize>() {
    let mut m: VariadicHashSet<S, H0> = VariadicHashSet::with_hasher(H0);
    kani::assert(m.is_empty() && m.len() == 0, "C10:new_is_empty");
    let mut xs = [(0u8, 0u8); 3];
    let mut i = 0;
    while i < N {
        let t = tup();
        let fresh = count(&xs, i, t) == 0;
        xs[i] = t;
        kani::assert(m.insert(var_expr!(t.0, t.1)) == fresh, "C10:set_insert_reports_true_exactly_for_a_new_tuple");
        i += 1;
        kani::assert(m.len() == distinct(&xs, i), "C10:set_len_counts_distinct_tuples");
    }
    let q = tup();
    kani::assert(m.contains(var_expr!(&q.0, &q.1)) == (count(&xs, N, q) > 0), "C10:contains_iff_inserted");
    let mut seen = 0;
    for var_expr!(a, b) in m.iter() {
        kani::assert(count(&xs, N, (*a, *b)) > 0, "C10:iter_yields_only_inserted_tuples");
        seen += 1;
    }
    kani::assert(seen == distinct(&xs, N), "C10:set_iter_yields_every_distinct_tuple_once");
    core::mem::forget(m);
}
#[kani::proof] #[kani::unwind(6)] pub(crate) fn hash_set_contract_n1() { hash_set_contract::<1>() }
#[kani::proof] #[kani::unwind(6)] pub(crate) fn hash_set_contract_n2() { hash_set_contract::<2>() }
#[kani::proof] #[kani::unwind(6)] pub(crate) fn hash_set_contract_n3() { hash_set_contract::<3>() }

/// multiset semantics after N inserts: insert always true, len counts with multiplicity, contains = membership
fn counted_set_contract<const N: usize>() {
    let mut m: VariadicCountedHashSet<S, H0> = VariadicCountedHashSet::with_hasher(H0);
    kani::assert(m.is_empty() && m.len() == 0, "C10:new_is_empty");
    let mut xs = [(0u8, 0u8); 3];
    let mut i = 0;
    while i < N {
        let t = tup();
        xs[i] = t;
        kani::assert(m.insert(var_expr!(t.0, t.1)), "C10:multiset_insert_always_reports_true");
        i += 1;
        kani::assert(m.len() == i, "C10:len_counts_every_insert_with_multiplicity");
    }
    let q = tup();
    kani::assert(m.contains(var_expr!(&q.0, &q.1)) == (count(&xs, N, q) > 0), "C10:contains_iff_inserted");
    // the stored multiplicity of q (through the public `get`)
    let stored = match m.get(var_expr!(&q.0, &q.1)) { Some((_, c)) => *c, None => 0 };
    kani::assert(stored == count(&xs, N, q), "C10:multiset_stores_every_tuple_with_its_multiplicity");
    core::mem::forget(m);
}
#[kani::proof] #[kani::unwind(6)] pub(crate) fn counted_set_contract_n1() { counted_set_contract::<1>() }
#[kani::proof] #[kani::unwind(6)] pub(crate) fn counted_set_contract_n2() { counted_set_contract::<2>() }
#[kani::proof] #[kani::unwind(6)] pub(crate) fn slow_counted_set_contract_n3() { counted_set_contract::<3>() }

/// iteration of the counted set yields every tuple with its multiplicity (one tuple inserted once or twice: `flat_map` over a symbolic
/// count is expensive for CBMC, so the instance is small)
#[kani::proof] #[kani::unwind(6)]
pub(crate) fn deep_counted_set_iter_multiplicity()   /* MEASURED > 900 s (flat_map over a symbolic multiplicity): in NO tier */ {
    let mut m: VariadicCountedHashSet<S, H0> = VariadicCountedHashSet::with_hasher(H0);
    let a = tup();
    let twice: bool = kani::any();
    m.insert(var_expr!(a.0, a.1));
    if twice { m.insert(var_expr!(a.0, a.1)); }
    let mut seen = 0;
    for var_expr!(x, y) in m.iter() { kani::assert((*x, *y) == a, "C10:iter_yields_only_inserted_tuples"); seen += 1; }
    kani::assert(seen == if twice { 2 } else { 1 }, "C10:multiset_iter_yields_every_tuple_with_its_multiplicity");
    core::mem::forget(m);
}

/// equality: the set compares as a set, the counted set as a multiset (same tuples AND same multiplicities), whatever the insertion order
#[kani::proof] #[kani::unwind(6)]
pub(crate) fn slow_hash_set_eq_is_set_equality() {
    let (a, b, c, d) = (tup(), tup(), tup(), tup());
    let mut l: VariadicHashSet<S, H0> = VariadicHashSet::with_hasher(H0);
    let mut r: VariadicHashSet<S, H0> = VariadicHashSet::with_hasher(H0);
    l.insert(var_expr!(a.0, a.1)); l.insert(var_expr!(b.0, b.1));
    r.insert(var_expr!(c.0, c.1)); r.insert(var_expr!(d.0, d.1));
    let same = (a == c || a == d) && (b == c || b == d) && (c == a || c == b) && (d == a || d == b);
    kani::assert((l == r) == same, "C10:set_equality_is_equality_of_tuple_sets");
    core::mem::forget(l); core::mem::forget(r);
}
#[kani::proof] #[kani::unwind(6)]
pub(crate) fn slow_counted_set_eq_is_multiset_equality() {
    let (a, b, c, d) = (tup(), tup(), tup(), tup());
    let mut l: VariadicCountedHashSet<S, H0> = VariadicCountedHashSet::with_hasher(H0);
    let mut r: VariadicCountedHashSet<S, H0> = VariadicCountedHashSet::with_hasher(H0);
    l.insert(var_expr!(a.0, a.1)); l.insert(var_expr!(b.0, b.1));
    r.insert(var_expr!(c.0, c.1)); r.insert(var_expr!(d.0, d.1));
    let same = (a == c && b == d) || (a == d && b == c);
    kani::assert((l == r) == same, "C10:counted_set_equality_is_multiset_equality");
    core::mem::forget(l); core::mem::forget(r);
}

/// equality compares MULTIPLICITIES, not just lengths and key sets: {a, a, b} != {a, b, b} and {a, a, b} == {b, a, a} (three inserts per
/// side; the two-insert harness above cannot tell a key-set comparison from a multiset comparison).  CONCRETE tuples a = (0, 1), b = (1, 0):
/// with symbolic tuples the same harness exceeded 900 s of CBMC on a loaded machine.
fn counted_eq_three(swapped: bool) {
    let (a, b) = ((0u8, 1u8), (1u8, 0u8));
    let mut l: VariadicCountedHashSet<S, H0> = VariadicCountedHashSet::with_hasher(H0);
    let mut r: VariadicCountedHashSet<S, H0> = VariadicCountedHashSet::with_hasher(H0);
    l.insert(var_expr!(a.0, a.1)); l.insert(var_expr!(a.0, a.1)); l.insert(var_expr!(b.0, b.1));
    if swapped {
        r.insert(var_expr!(a.0, a.1)); r.insert(var_expr!(b.0, b.1)); r.insert(var_expr!(b.0, b.1));
    } else {
        r.insert(var_expr!(b.0, b.1)); r.insert(var_expr!(a.0, a.1)); r.insert(var_expr!(a.0, a.1));
    }
    kani::assert((l == r) == !swapped, "C10:counted_set_equality_is_multiset_equality");
    core::mem::forget(l); core::mem::forget(r);
}
#[kani::proof] #[kani::unwind(8)] pub(crate) fn counted_set_contract_eq_multiplicities_differ() { counted_eq_three(true) }
#[kani::proof] #[kani::unwind(8)] pub(crate) fn counted_set_contract_eq_multiplicities_same() { counted_eq_three(false) }

/// extend from ANY iterator == repeated insert, whatever `size_hint` said (it only feeds `reserve`)
#[kani::proof] #[kani::unwind(6)]
pub(crate) fn hash_set_contract_extend_any_size_hint() {
    let mut m: VariadicHashSet<S, H0> = VariadicHashSet::with_hasher(H0);
    let pre: bool = kani::any();
    let first = tup();
    if pre { m.insert(var_expr!(first.0, first.1)); }
    let items = [tup(), tup()];
    let n: usize = kani::any();
    kani::assume(n <= 2);
    m.extend(crate::harness::HavocIter { items, n, next: 0 });
    let mut xs = [(0u8, 0u8); 3];
    let mut k = 0;
    if pre { xs[k] = first; k += 1; }
    let mut i = 0;
    while i < n { xs[k] = items[i]; k += 1; i += 1; }
    kani::assert(m.len() == distinct(&xs, k), "C10:set_len_counts_distinct_tuples");
    let q = tup();
    kani::assert(m.contains(var_expr!(&q.0, &q.1)) == (count(&xs, k, q) > 0), "C10:contains_iff_inserted");
    core::mem::forget(m);
}
#[kani::proof] #[kani::unwind(6)]
pub(crate) fn deep_counted_set_extend_any_size_hint()   /* MEASURED: CBMC > 8 min and > 30 GB (stopped by hand): in NO tier */ {
    let mut m: VariadicCountedHashSet<S, H0> = VariadicCountedHashSet::with_hasher(H0);
    let pre: bool = kani::any();
    let first = tup();
    if pre { m.insert(var_expr!(first.0, first.1)); }
    let items = [tup(), tup()];
    let n: usize = kani::any();
    kani::assume(n <= 2);
    m.extend(crate::harness::HavocIter { items, n, next: 0 });
    let k = n + if pre { 1 } else { 0 };
    kani::assert(m.len() == k, "C10:len_counts_every_insert_with_multiplicity");
    let q = tup();
    let member = (pre && first == q) || (n >= 1 && items[0] == q) || (n >= 2 && items[1] == q);
    kani::assert(m.contains(var_expr!(&q.0, &q.1)) == member, "C10:contains_iff_inserted");
    core::mem::forget(m);
}

/// drain yields the multiset that was inserted and leaves an empty, reusable collection (one tuple, inserted once or twice)
#[kani::proof] #[kani::unwind(6)]
pub(crate) fn deep_counted_set_drain()   /* MEASURED > 900 s (drain + flat_map): in NO tier */ {
    let a = tup();
    let twice: bool = kani::any();
    let mut m: VariadicCountedHashSet<S, H0> = VariadicCountedHashSet::with_hasher(H0);
    m.insert(var_expr!(a.0, a.1));
    if twice { m.insert(var_expr!(a.0, a.1)); }
    let mut n = 0;
    for var_expr!(x, y) in m.drain() { kani::assert((x, y) == a, "C10:drain_yields_exactly_the_inserted_multiset"); n += 1; }
    kani::assert(n == if twice { 2 } else { 1 }, "C10:drain_yields_exactly_the_inserted_multiset");
    kani::assert(m.is_empty() && m.len() == 0 && !m.contains(var_expr!(&a.0, &a.1)), "C10:drain_leaves_collection_empty");
    core::mem::forget(m);
}
