//! C10 (partial): VariadicColumnMultiset of the real `variadics` crate (path dependency) against a multiset-of-tuples oracle.
//! VariadicHashSet / VariadicCountedHashSet own a hashbrown table: NOT covered (outside CBMC's reach).
#![allow(dead_code, unused_imports, clippy::all)]
pub mod extracted;
#[cfg(kani)]
mod harness {
    use variadics::variadic_collections::{VariadicCollection, VariadicColumnMultiset};
    use variadics::{var_expr, var_type};

    type S = var_type!(u8, u8);
    const MAXN: usize = 3;

    /// Bounded: <= 3 inserts from `new()`.  len / iter / contains / insert's result against the inserted sequence.
    #[kani::proof]
    #[kani::unwind(6)]
    pub(crate) fn column_multiset_insert_iter_contains() {
        let mut m: VariadicColumnMultiset<S> = VariadicColumnMultiset::new();
        kani::assert(m.is_empty() && m.len() == 0, "C10:new_is_empty");
        let n: usize = kani::any();
        kani::assume(n <= MAXN);
        let items: [(u8, u8); MAXN] = kani::any();
        let mut i = 0;
        while i < n {
            let r = m.insert(var_expr!(items[i].0, items[i].1));
            kani::assert(r, "C10:multiset_insert_always_reports_true");
            i += 1;
            kani::assert(m.len() == i, "C10:len_counts_every_insert_with_multiplicity");
        }
        kani::assert(m.is_empty() == (n == 0), "C10:is_empty_iff_len_zero");
        // iteration yields exactly the inserted tuples (here: in insertion order)
        let mut k = 0;
        for var_expr!(a, b) in m.iter() {
            kani::assert(k < n && (*a, *b) == items[k], "C10:iter_yields_exactly_the_inserted_tuples");
            k += 1;
        }
        kani::assert(k == n, "C10:iter_yields_every_inserted_tuple");
        // contains agrees with membership
        let (x, y): (u8, u8) = kani::any();
        let mut member = false;
        let mut j = 0;
        while j < n { if items[j] == (x, y) { member = true; } j += 1; }
        kani::assert(m.contains(var_expr!(&x, &y)) == member, "C10:contains_iff_inserted");
    }

    /// drain yields every tuple once and leaves an empty, reusable collection
    #[kani::proof]
    #[kani::unwind(6)]
    pub(crate) fn column_multiset_drain_reuse() {
        let mut m: VariadicColumnMultiset<S> = VariadicColumnMultiset::new();
        let n: usize = kani::any();
        kani::assume(n <= 2);
        let items: [(u8, u8); 2] = kani::any();
        let mut i = 0;
        while i < n { m.insert(var_expr!(items[i].0, items[i].1)); i += 1; }
        let mut k = 0;
        for var_expr!(a, b) in m.drain() {
            kani::assert(k < n && (a, b) == items[k], "C10:drain_yields_exactly_the_inserted_tuples");
            k += 1;
        }
        kani::assert(k == n, "C10:drain_yields_every_tuple_once");
        kani::assert(m.is_empty() && m.len() == 0 && m.iter().next().is_none(), "C10:drain_leaves_collection_empty");
        let z: (u8, u8) = kani::any();
        m.insert(var_expr!(z.0, z.1));
        kani::assert(m.len() == 1 && m.contains(var_expr!(&z.0, &z.1)), "C10:collection_usable_after_drain");
        let mut c = 0;
        for var_expr!(a, b) in m.iter() { kani::assert((*a, *b) == z, "C10:no_stale_tuple_after_drain"); c += 1; }
        kani::assert(c == 1, "C10:no_stale_tuple_after_drain");
    }

    /// extend == repeated insert; into_iter yields everything
    #[kani::proof]
    #[kani::unwind(6)]
    pub(crate) fn column_multiset_extend_into_iter() {
        let mut m: VariadicColumnMultiset<S> = VariadicColumnMultiset::new();
        let items: [(u8, u8); 2] = kani::any();
        m.extend([var_expr!(items[0].0, items[0].1), var_expr!(items[1].0, items[1].1)]);
        kani::assert(m.len() == 2, "C10:extend_inserts_every_item");
        let mut k = 0;
        for var_expr!(a, b) in m.into_iter() {
            kani::assert(k < 2 && (a, b) == items[k], "C10:into_iter_yields_exactly_the_inserted_tuples");
            k += 1;
        }
        kani::assert(k == 2, "C10:into_iter_yields_every_tuple");
    }

    /// A havoc iterator of <= 2 tuples answering ANY `size_hint` the Iterator contract allows (lower <= remaining <= upper): what a
    /// `filter` / `flat_map` / `from_fn` source may legally say.
    pub(crate) struct HavocIter { pub(crate) items: [(u8, u8); 2], pub(crate) n: usize, pub(crate) next: usize }
    impl Iterator for HavocIter {
        type Item = var_type!(u8, u8);
        fn next(&mut self) -> Option<Self::Item> {
            if self.next < self.n { self.next += 1; Some(var_expr!(self.items[self.next - 1].0, self.items[self.next - 1].1)) } else { None }
        }
        fn size_hint(&self) -> (usize, Option<usize>) {
            let rem = self.n - self.next;
            let lo: usize = kani::any();
            kani::assume(lo <= rem);
            let hi: Option<usize> = if kani::any() { None } else { let h: usize = kani::any(); kani::assume(h >= rem && h <= 4); Some(h) };
            (lo, hi)
        }
    }
    /// extend from ANY iterator == repeated insert: len, iteration and membership agree afterwards, whatever `size_hint` said,
    /// starting from an empty or a one-tuple multiset, and a later insert still lands.
    #[kani::proof]
    #[kani::unwind(6)]
    pub(crate) fn column_multiset_extend_any_size_hint() {
        let mut m: VariadicColumnMultiset<S> = VariadicColumnMultiset::new();
        let first: (u8, u8) = kani::any();
        let pre: bool = kani::any();
        if pre { m.insert(var_expr!(first.0, first.1)); }
        let items: [(u8, u8); 2] = kani::any();
        let n: usize = kani::any();
        kani::assume(n <= 2);
        m.extend(HavocIter { items, n, next: 0 });
        let base = if pre { 1 } else { 0 };
        kani::assert(m.len() == base + n, "C10:extend_len_counts_every_item_whatever_size_hint_said");
        let last: (u8, u8) = kani::any();
        m.insert(var_expr!(last.0, last.1));
        kani::assert(m.len() == base + n + 1, "C10:len_counts_every_insert_with_multiplicity");
        let mut k = 0;
        for var_expr!(a, b) in m.iter() {
            let want = if k < base { first } else if k < base + n { items[k - base] } else { last };
            kani::assert(k < base + n + 1 && (*a, *b) == want, "C10:iter_yields_exactly_the_inserted_tuples");
            k += 1;
        }
        kani::assert(k == base + n + 1, "C10:iter_yields_every_inserted_tuple");
    }

    // ------------------------------------------------------------------------------------------ hashbrown-backed collections
    // A constant BuildHasher (every tuple hashes to 0) keeps hashbrown's probing concrete.  MEASURED LIMIT: one insert into an empty
    // table costs CBMC ~80 s, insert + lookup ~240 s; any SECOND insert (also of concrete tuples) exceeds 1500 s.  So only the
    // one-tuple contracts below are checked (thorough tier); duplicate handling, multiplicities, equality, iteration order,
    // drain and extend of the two hash-backed collections are NOT covered.
    use core::hash::{BuildHasher, Hasher};
    use variadics::variadic_collections::{VariadicCountedHashSet, VariadicHashSet};
    #[derive(Clone, Copy, Default)]
    pub(crate) struct ConstHasher;
    impl Hasher for ConstHasher { fn finish(&self) -> u64 { 0 } fn write(&mut self, _: &[u8]) {} }
    impl BuildHasher for ConstHasher { type Hasher = ConstHasher; fn build_hasher(&self) -> ConstHasher { ConstHasher } }

    /// one tuple: insert reports true, len is 1, contains agrees with membership
    #[kani::proof]
    #[kani::unwind(6)]
    pub(crate) fn slow_hash_set_one_tuple() {
        let mut m: VariadicHashSet<S, ConstHasher> = VariadicHashSet::with_hasher(ConstHasher);
        kani::assert(m.is_empty() && m.len() == 0, "C10:new_is_empty");
        let a: (u8, u8) = kani::any();
        kani::assert(m.insert(var_expr!(a.0, a.1)), "C10:set_insert_reports_true_for_a_new_tuple");
        kani::assert(m.len() == 1 && !m.is_empty(), "C10:set_len_counts_distinct_tuples");
        let x: (u8, u8) = kani::any();
        kani::assert(m.contains(var_expr!(&x.0, &x.1)) == (x == a), "C10:contains_iff_inserted");
        core::mem::forget(m);
    }

    /// one tuple in the counted set: insert reports true, len counts it, contains agrees with membership
    #[kani::proof]
    #[kani::unwind(6)]
    pub(crate) fn slow_counted_hash_set_one_tuple() {
        let mut m: VariadicCountedHashSet<S, ConstHasher> = VariadicCountedHashSet::with_hasher(ConstHasher);
        kani::assert(m.is_empty() && m.len() == 0, "C10:new_is_empty");
        let a: (u8, u8) = kani::any();
        kani::assert(m.insert(var_expr!(a.0, a.1)), "C10:multiset_insert_always_reports_true");
        kani::assert(m.len() == 1 && !m.is_empty(), "C10:len_counts_every_insert_with_multiplicity");
        let x: (u8, u8) = kani::any();
        kani::assert(m.contains(var_expr!(&x.0, &x.1)) == (x == a), "C10:contains_iff_inserted");
        core::mem::forget(m);
    }
}
