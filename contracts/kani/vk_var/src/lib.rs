//! C10 (partial): VariadicColumnMultiset of the real `variadics` crate (path dependency) against a multiset-of-tuples oracle.
//! VariadicHashSet / VariadicCountedHashSet own a hashbrown table: NOT covered (outside CBMC's reach).
#![allow(dead_code, clippy::all)]
#[cfg(kani)]
mod harness {
    use variadics::variadic_collections::{VariadicCollection, VariadicColumnMultiset};
    use variadics::{var_expr, var_type};

    type S = var_type!(u8, u8);
    const MAXN: usize = 3;

    /// Bounded: <= 3 inserts from `new()`.  len / iter / contains / insert's result against the inserted sequence.
    #[kani::proof]
    #[kani::unwind(6)]
    pub(crate) fn column_multiset_insert_iter_contains() {
        let mut m: VariadicColumnMultiset<S> = VariadicColumnMultiset::new();
        kani::assert(m.is_empty() && m.len() == 0, "C10:new_is_empty");
        let n: usize = kani::any();
        kani::assume(n <= MAXN);
        let items: [(u8, u8); MAXN] = kani::any();
        let mut i = 0;
        while i < n {
            let r = m.insert(var_expr!(items[i].0, items[i].1));
            kani::assert(r, "C10:multiset_insert_always_reports_true");
            i += 1;
            kani::assert(m.len() == i, "C10:len_counts_every_insert_with_multiplicity");
        }
        kani::assert(m.is_empty() == (n == 0), "C10:is_empty_iff_len_zero");
        // iteration yields exactly the inserted tuples (here: in insertion order)
        let mut k = 0;
        for var_expr!(a, b) in m.iter() {
            kani::assert(k < n && (*a, *b) == items[k], "C10:iter_yields_exactly_the_inserted_tuples");
            k += 1;
        }
        kani::assert(k == n, "C10:iter_yields_every_inserted_tuple");
        // contains agrees with membership
        let (x, y): (u8, u8) = kani::any();
        let mut member = false;
        let mut j = 0;
        while j < n { if items[j] == (x, y) { member = true; } j += 1; }
        kani::assert(m.contains(var_expr!(&x, &y)) == member, "C10:contains_iff_inserted");
    }

    /// drain yields every tuple once and leaves an empty, reusable collection
    #[kani::proof]
    #[kani::unwind(6)]
    pub(crate) fn column_multiset_drain_reuse() {
        let mut m: VariadicColumnMultiset<S> = VariadicColumnMultiset::new();
        let n: usize = kani::any();
        kani::assume(n <= 2);
        let items: [(u8, u8); 2] = kani::any();
        let mut i = 0;
        while i < n { m.insert(var_expr!(items[i].0, items[i].1)); i += 1; }
        let mut k = 0;
        for var_expr!(a, b) in m.drain() {
            kani::assert(k < n && (a, b) == items[k], "C10:drain_yields_exactly_the_inserted_tuples");
            k += 1;
        }
        kani::assert(k == n, "C10:drain_yields_every_tuple_once");
        kani::assert(m.is_empty() && m.len() == 0 && m.iter().next().is_none(), "C10:drain_leaves_collection_empty");
        let z: (u8, u8) = kani::any();
        m.insert(var_expr!(z.0, z.1));
        kani::assert(m.len() == 1 && m.contains(var_expr!(&z.0, &z.1)), "C10:collection_usable_after_drain");
        let mut c = 0;
        for var_expr!(a, b) in m.iter() { kani::assert((*a, *b) == z, "C10:no_stale_tuple_after_drain"); c += 1; }
        kani::assert(c == 1, "C10:no_stale_tuple_after_drain");
    }

    /// extend == repeated insert; into_iter yields everything
    #[kani::proof]
    #[kani::unwind(6)]
    pub(crate) fn column_multiset_extend_into_iter() {
        let mut m: VariadicColumnMultiset<S> = VariadicColumnMultiset::new();
        let items: [(u8, u8); 2] = kani::any();
        m.extend([var_expr!(items[0].0, items[0].1), var_expr!(items[1].0, items[1].1)]);
        kani::assert(m.len() == 2, "C10:extend_inserts_every_item");
        let mut k = 0;
        for var_expr!(a, b) in m.into_iter() {
            kani::assert(k < 2 && (a, b) == items[k], "C10:into_iter_yields_exactly_the_inserted_tuples");
            k += 1;
        }
        kani::assert(k == 2, "C10:into_iter_yields_every_tuple");
    }

    // ------------------------------------------------------------------------------------------ hashbrown-backed collections
    // A constant BuildHasher (every tuple hashes to 0) keeps hashbrown's probing concrete; the table then behaves as an
    // association list inside one probe group.  BOUNDED: <= 2 distinct tuples per table.
    use core::hash::{BuildHasher, Hasher};
    use variadics::variadic_collections::{VariadicCountedHashSet, VariadicHashSet};
    #[derive(Clone, Copy, Default)]
    pub(crate) struct ConstHasher;
    impl Hasher for ConstHasher { fn finish(&self) -> u64 { 0 } fn write(&mut self, _: &[u8]) {} }
    impl BuildHasher for ConstHasher { type Hasher = ConstHasher; fn build_hasher(&self) -> ConstHasher { ConstHasher } }

    /// set semantics: a duplicate insert reports false and does not grow the set; len/contains/iter agree
    #[kani::proof]
    #[kani::unwind(6)]
    pub(crate) fn hash_set_insert_contains_one() {
        let mut m: VariadicHashSet<S, ConstHasher> = VariadicHashSet::with_hasher(ConstHasher);
        kani::assert(m.is_empty() && m.len() == 0, "C10:new_is_empty");
        let a: (u8, u8) = kani::any();
        kani::assert(m.insert(var_expr!(a.0, a.1)), "C10:set_insert_reports_true_for_a_new_tuple");
        kani::assert(!m.insert(var_expr!(a.0, a.1)), "C10:set_insert_reports_false_for_a_duplicate");
        kani::assert(m.len() == 1 && !m.is_empty(), "C10:set_len_counts_distinct_tuples");
        let x: (u8, u8) = kani::any();
        kani::assert(m.contains(var_expr!(&x.0, &x.1)) == (x == a), "C10:contains_iff_inserted");
        let mut k = 0;
        for var_expr!(p, q) in m.iter() { kani::assert((*p, *q) == a, "C10:iter_yields_exactly_the_inserted_tuples"); k += 1; }
        kani::assert(k == 1, "C10:iter_yields_every_inserted_tuple");
        core::mem::forget(m);
    }

    /// multiset semantics: every insert reports true and counts; iter yields each tuple with its multiplicity
    #[kani::proof]
    #[kani::unwind(6)]
    pub(crate) fn counted_hash_set_insert_iter_one() {
        let mut m: VariadicCountedHashSet<S, ConstHasher> = VariadicCountedHashSet::with_hasher(ConstHasher);
        kani::assert(m.is_empty() && m.len() == 0, "C10:new_is_empty");
        let a: (u8, u8) = kani::any();
        kani::assert(m.insert(var_expr!(a.0, a.1)), "C10:multiset_insert_always_reports_true");
        kani::assert(m.insert(var_expr!(a.0, a.1)), "C10:multiset_insert_always_reports_true");
        kani::assert(m.len() == 2, "C10:len_counts_every_insert_with_multiplicity");
        let x: (u8, u8) = kani::any();
        kani::assert(m.contains(var_expr!(&x.0, &x.1)) == (x == a), "C10:contains_iff_inserted");
        let mut k = 0;
        for var_expr!(p, q) in m.iter() { kani::assert((*p, *q) == a, "C10:iter_yields_exactly_the_inserted_tuples"); k += 1; }
        kani::assert(k == 2, "C10:iter_yields_every_tuple_with_its_multiplicity");
        core::mem::forget(m);
    }

    /// equality of counted sets is multiset equality: same tuples AND same multiplicities
    #[kani::proof]
    #[kani::unwind(6)]
    pub(crate) fn counted_hash_set_eq_is_multiset_eq() {
        let (a, b): ((u8, u8), (u8, u8)) = kani::any();
        kani::assume(a != b);
        // l = {a, a}; r = {a, b}: same length, every tuple of l occurs in r, but the multiplicities differ
        let mut l: VariadicCountedHashSet<S, ConstHasher> = VariadicCountedHashSet::with_hasher(ConstHasher);
        let mut r: VariadicCountedHashSet<S, ConstHasher> = VariadicCountedHashSet::with_hasher(ConstHasher);
        l.insert(var_expr!(a.0, a.1)); l.insert(var_expr!(a.0, a.1));
        r.insert(var_expr!(a.0, a.1)); r.insert(var_expr!(b.0, b.1));
        kani::assert(l != r && r != l, "C10:counted_set_equality_compares_multiplicities");
        // r2 = {b, a}: the same multiset as r, built in the other order
        let mut r2: VariadicCountedHashSet<S, ConstHasher> = VariadicCountedHashSet::with_hasher(ConstHasher);
        r2.insert(var_expr!(b.0, b.1)); r2.insert(var_expr!(a.0, a.1));
        kani::assert(r == r2 && r2 == r, "C10:equality_ignores_insertion_order");
        core::mem::forget(l); core::mem::forget(r); core::mem::forget(r2);
    }

    /// set equality: same tuples regardless of insertion order and duplicates
    #[kani::proof]
    #[kani::unwind(6)]
    pub(crate) fn hash_set_eq_is_set_eq() {
        let (a, b): ((u8, u8), (u8, u8)) = kani::any();
        kani::assume(a != b);
        let mut l: VariadicHashSet<S, ConstHasher> = VariadicHashSet::with_hasher(ConstHasher);
        let mut r: VariadicHashSet<S, ConstHasher> = VariadicHashSet::with_hasher(ConstHasher);
        l.insert(var_expr!(a.0, a.1)); l.insert(var_expr!(b.0, b.1)); l.insert(var_expr!(a.0, a.1));
        r.insert(var_expr!(b.0, b.1)); r.insert(var_expr!(a.0, a.1));
        kani::assert(l.len() == 2 && r.len() == 2, "C10:set_len_counts_distinct_tuples");
        kani::assert(l == r && r == l, "C10:equality_ignores_insertion_order");
        let mut one: VariadicHashSet<S, ConstHasher> = VariadicHashSet::with_hasher(ConstHasher);
        one.insert(var_expr!(a.0, a.1));
        kani::assert(one != l && l != one, "C10:sets_of_different_size_differ");
        core::mem::forget(l); core::mem::forget(r); core::mem::forget(one);
    }

    #[kani::proof]
    #[kani::unwind(6)]
    pub(crate) fn probe_min_hash_set() {
        let mut m: VariadicHashSet<S, ConstHasher> = VariadicHashSet::with_hasher(ConstHasher);
        let a: (u8, u8) = kani::any();
        kani::assert(m.insert(var_expr!(a.0, a.1)), "C10:set_insert_reports_true_for_a_new_tuple");
        kani::assert(m.len() == 1, "C10:set_len_counts_distinct_tuples");
        core::mem::forget(m);
    }

    #[kani::proof]
    #[kani::unwind(6)]
    pub(crate) fn probe_a_insert_contains() {
        let mut m: VariadicHashSet<S, ConstHasher> = VariadicHashSet::with_hasher(ConstHasher);
        let a: (u8, u8) = kani::any();
        m.insert(var_expr!(a.0, a.1));
        let x: (u8, u8) = kani::any();
        kani::assert(m.contains(var_expr!(&x.0, &x.1)) == (x == a), "C10:contains_iff_inserted");
        core::mem::forget(m);
    }
    #[kani::proof]
    #[kani::unwind(6)]
    pub(crate) fn probe_b_insert_dup() {
        let mut m: VariadicHashSet<S, ConstHasher> = VariadicHashSet::with_hasher(ConstHasher);
        let a: (u8, u8) = kani::any();
        m.insert(var_expr!(a.0, a.1));
        kani::assert(!m.insert(var_expr!(a.0, a.1)), "C10:set_insert_reports_false_for_a_duplicate");
        kani::assert(m.len() == 1, "C10:set_len_counts_distinct_tuples");
        core::mem::forget(m);
    }
    #[kani::proof]
    #[kani::unwind(6)]
    pub(crate) fn probe_c_counted_two() {
        let mut m: VariadicCountedHashSet<S, ConstHasher> = VariadicCountedHashSet::with_hasher(ConstHasher);
        let a: (u8, u8) = kani::any();
        m.insert(var_expr!(a.0, a.1));
        m.insert(var_expr!(a.0, a.1));
        kani::assert(m.len() == 2, "C10:len_counts_every_insert_with_multiplicity");
        core::mem::forget(m);
    }
    #[kani::proof]
    #[kani::unwind(6)]
    pub(crate) fn probe_d_concrete_counted_eq() {
        let mut l: VariadicCountedHashSet<S, ConstHasher> = VariadicCountedHashSet::with_hasher(ConstHasher);
        let mut r: VariadicCountedHashSet<S, ConstHasher> = VariadicCountedHashSet::with_hasher(ConstHasher);
        l.insert(var_expr!(1, 2)); l.insert(var_expr!(1, 2));
        r.insert(var_expr!(1, 2)); r.insert(var_expr!(3, 4));
        kani::assert(l != r, "C10:counted_set_equality_compares_multiplicities");
        core::mem::forget(l); core::mem::forget(r);
    }
}
