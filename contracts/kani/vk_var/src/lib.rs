//! C10 (partial): VariadicColumnMultiset of the real `variadics` crate (path dependency) against a multiset-of-tuples oracle.
//! VariadicHashSet / VariadicCountedHashSet own a hashbrown table: NOT covered (outside CBMC's reach).
#![allow(dead_code, clippy::all)]
#[cfg(kani)]
mod harness {
    use variadics::variadic_collections::{VariadicCollection, VariadicColumnMultiset};
    use variadics::{var_expr, var_type};

    type S = var_type!(u8, u8);
    const MAXN: usize = 3;

    /// Bounded: <= 3 inserts from `new()`.  len / iter / contains / insert's result against the inserted sequence.
    #[kani::proof]
    #[kani::unwind(6)]
    pub(crate) fn column_multiset_insert_iter_contains() {
        let mut m: VariadicColumnMultiset<S> = VariadicColumnMultiset::new();
        kani::assert(m.is_empty() && m.len() == 0, "C10:new_is_empty");
        let n: usize = kani::any();
        kani::assume(n <= MAXN);
        let items: [(u8, u8); MAXN] = kani::any();
        let mut i = 0;
        while i < n {
            let r = m.insert(var_expr!(items[i].0, items[i].1));
            kani::assert(r, "C10:multiset_insert_always_reports_true");
            i += 1;
            kani::assert(m.len() == i, "C10:len_counts_every_insert_with_multiplicity");
        }
        kani::assert(m.is_empty() == (n == 0), "C10:is_empty_iff_len_zero");
        // iteration yields exactly the inserted tuples (here: in insertion order)
        let mut k = 0;
        for var_expr!(a, b) in m.iter() {
            kani::assert(k < n && (*a, *b) == items[k], "C10:iter_yields_exactly_the_inserted_tuples");
            k += 1;
        }
        kani::assert(k == n, "C10:iter_yields_every_inserted_tuple");
        // contains agrees with membership
        let (x, y): (u8, u8) = kani::any();
        let mut member = false;
        let mut j = 0;
        while j < n { if items[j] == (x, y) { member = true; } j += 1; }
        kani::assert(m.contains(var_expr!(&x, &y)) == member, "C10:contains_iff_inserted");
    }

    /// drain yields every tuple once and leaves an empty, reusable collection
    #[kani::proof]
    #[kani::unwind(6)]
    pub(crate) fn column_multiset_drain_reuse() {
        let mut m: VariadicColumnMultiset<S> = VariadicColumnMultiset::new();
        let n: usize = kani::any();
        kani::assume(n <= 2);
        let items: [(u8, u8); 2] = kani::any();
        let mut i = 0;
        while i < n { m.insert(var_expr!(items[i].0, items[i].1)); i += 1; }
        let mut k = 0;
        for var_expr!(a, b) in m.drain() {
            kani::assert(k < n && (a, b) == items[k], "C10:drain_yields_exactly_the_inserted_tuples");
            k += 1;
        }
        kani::assert(k == n, "C10:drain_yields_every_tuple_once");
        kani::assert(m.is_empty() && m.len() == 0 && m.iter().next().is_none(), "C10:drain_leaves_collection_empty");
        let z: (u8, u8) = kani::any();
        m.insert(var_expr!(z.0, z.1));
        kani::assert(m.len() == 1 && m.contains(var_expr!(&z.0, &z.1)), "C10:collection_usable_after_drain");
        let mut c = 0;
        for var_expr!(a, b) in m.iter() { kani::assert((*a, *b) == z, "C10:no_stale_tuple_after_drain"); c += 1; }
        kani::assert(c == 1, "C10:no_stale_tuple_after_drain");
    }

    /// extend == repeated insert; into_iter yields everything
    #[kani::proof]
    #[kani::unwind(6)]
    pub(crate) fn column_multiset_extend_into_iter() {
        let mut m: VariadicColumnMultiset<S> = VariadicColumnMultiset::new();
        let items: [(u8, u8); 2] = kani::any();
        m.extend([var_expr!(items[0].0, items[0].1), var_expr!(items[1].0, items[1].1)]);
        kani::assert(m.len() == 2, "C10:extend_inserts_every_item");
        let mut k = 0;
        for var_expr!(a, b) in m.into_iter() {
            kani::assert(k < 2 && (a, b) == items[k], "C10:into_iter_yields_exactly_the_inserted_tuples");
            k += 1;
        }
        kani::assert(k == 2, "C10:into_iter_yields_every_tuple");
    }
}
