//! C15: MergeSource / TaggedSource of hydro_deploy_integration, items extracted verbatim by hvx on every run
//! (src/extracted.rs is generated from extracted.rs.in; compiling the whole crate under Kani would pull tokio).
#![allow(dead_code, unused_imports, clippy::all)]
pub mod extracted;
