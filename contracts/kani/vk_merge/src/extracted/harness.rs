//! One-poll contract of MergeSource::poll_next, for every cursor position and every answer of every source.
//! Child module of the extracted items: may name their private fields.
use std::sync::Arc;
use std::task::{Wake, Waker};

use super::*;

const MAXN: usize = 4;
#[derive(Clone, Copy, PartialEq, Eq)]
enum Ans { NotPolled, Pending, End, Item }
static mut ANS: [Ans; MAXN] = [Ans::NotPolled; MAXN];
static mut POLLS: [u8; MAXN] = [0; MAXN];
static mut ORDER: [u8; MAXN] = [0; MAXN]; // ORDER[k] = id of the k-th poll of this call
static mut NPOLLS: usize = 0;

/// Havoc source: each poll answers anything a Stream may answer; records what it did.
struct Havoc { id: u8, seq: u8 }
impl Stream for Havoc {
    type Item = (u8, u8);
    fn poll_next(self: Pin<&mut Self>, _cx: &mut Context<'_>) -> Poll<Option<(u8, u8)>> {
        let me = self.get_mut();
        let i = me.id as usize;
        unsafe {
            POLLS[i] += 1;
            ORDER[NPOLLS] = me.id;
            NPOLLS += 1;
        }
        let a: u8 = kani::any();
        if a == 0 {
            unsafe { ANS[i] = Ans::Pending; }
            Poll::Pending
        } else if a == 1 {
            unsafe { ANS[i] = Ans::End; }
            Poll::Ready(None)
        } else {
            unsafe { ANS[i] = Ans::Item; }
            me.seq = me.seq.wrapping_add(1);
            Poll::Ready(Some((me.id, me.seq)))
        }
    }
}

struct NoWake;
impl Wake for NoWake { fn wake(self: Arc<Self>) {} }

fn one_poll<const N: usize>() {
    let mut seqs = [0u8; N];
    let mut sources: Vec<Option<Pin<Box<Havoc>>>> = Vec::with_capacity(N);
    let mut i = 0;
    while i < N {
        seqs[i] = kani::any();
        sources.push(Some(Box::pin(Havoc { id: i as u8, seq: seqs[i] })));
        i += 1;
    }
    let c: usize = kani::any();
    kani::assume(c < N);
    let mut ms = MergeSource { marker: PhantomData, sources, poll_cursor: c };
    let waker = Waker::noop();
    let mut cx = Context::from_waker(&waker);

    let out = Pin::new(&mut ms).poll_next(&mut cx);

    let (ans, polls, order, npolls) = unsafe { (ANS, POLLS, ORDER, NPOLLS) };
    // --- expected, from the property statement: poll in cyclic order from the cursor, stop at the first item
    let mut first_item: Option<usize> = None; // offset k of first Item
    let mut k = 0;
    while k < npolls {
        kani::assert(order[k] as usize == (c + k) % N, "C15:polled_in_cyclic_order_from_cursor");
        if first_item.is_none() && ans[order[k] as usize] == Ans::Item { first_item = Some(k); }
        k += 1;
    }
    let mut j = 0;
    while j < N {
        kani::assert(polls[j] <= 1, "C15:each_source_polled_at_most_once_per_poll");
        j += 1;
    }
    match first_item {
        Some(kf) => {
            kani::assert(npolls == kf + 1, "C15:polling_stops_at_first_ready_item");
            let id = (c + kf) % N;
            kani::assert(out == Poll::Ready(Some((id as u8, seqs[id].wrapping_add(1)))), "C15:returns_exactly_the_item_the_source_produced");
        }
        None => {
            kani::assert(npolls == N, "C15:every_source_polled_when_none_ready");
        }
    }
    // survivors: exactly the sources that did not end, in their old relative order, all Some
    let mut expect_len = 0;
    let mut j = 0;
    while j < N {
        if ans[j] != Ans::End {
            kani::assert(expect_len < ms.sources.len(), "C15:no_live_source_lost");
            if expect_len < ms.sources.len() {
                match &ms.sources[expect_len] {
                    Some(s) => {
                        kani::assert(s.id as usize == j, "C15:survivors_keep_relative_order");
                        let want = if ans[j] == Ans::Item { seqs[j].wrapping_add(1) } else { seqs[j] };
                        kani::assert(s.seq == want, "C15:source_state_untouched_unless_polled");
                    }
                    None => kani::assert(false, "C15:all_entries_some_after_poll"),
                }
            }
            expect_len += 1;
        }
        j += 1;
    }
    kani::assert(ms.sources.len() == expect_len, "C15:ended_sources_and_only_those_removed");
    if first_item.is_none() {
        if expect_len == 0 {
            kani::assert(out == Poll::Ready(None), "C15:ends_exactly_when_all_sources_ended");
        } else {
            kani::assert(out == Poll::Pending, "C15:pending_when_live_sources_have_nothing");
        }
    } else {
        kani::assert(expect_len > 0, "C15:serving_source_survives");
    }
    // cursor: the survivor that follows the last polled source in the old cyclic order
    if expect_len == 0 {
        kani::assert(ms.poll_cursor == 0, "C15:cursor_zero_when_empty");
    } else {
        kani::assert(ms.poll_cursor < ms.sources.len(), "C15:cursor_in_range");
        let last = (c + npolls - 1) % N;
        let mut d = 1;
        let mut want: Option<usize> = None;
        while d <= N {
            let cand = (last + d) % N;
            if want.is_none() && ans[cand] != Ans::End { want = Some(cand); }
            d += 1;
        }
        if ms.poll_cursor < ms.sources.len() {
            let got = ms.sources[ms.poll_cursor].as_ref().map(|s| s.id as usize);
            kani::assert(got == want, "C15:cursor_designates_next_survivor_after_last_polled");
        }
    }
    core::mem::forget(ms);
}

#[kani::proof] #[kani::unwind(4)] pub(crate) fn merge_one_poll_n1() { one_poll::<1>() }
#[kani::proof] #[kani::unwind(5)] pub(crate) fn merge_one_poll_n2() { one_poll::<2>() }
#[kani::proof] #[kani::unwind(6)] pub(crate) fn merge_one_poll_n3() { one_poll::<3>() }
#[kani::proof] #[kani::unwind(7)] pub(crate) fn merge_one_poll_n4() { one_poll::<4>() }

/// Empty MergeSource ends immediately and stays well-formed.
#[kani::proof] #[kani::unwind(3)]
pub(crate) fn merge_empty() {
    let mut ms: MergeSource<(u8, u8), Havoc> = MergeSource { marker: PhantomData, sources: Vec::new(), poll_cursor: 0 };
    let waker = Waker::noop();
    let mut cx = Context::from_waker(&waker);
    let out = Pin::new(&mut ms).poll_next(&mut cx);
    kani::assert(out == Poll::Ready(None), "C15:ends_exactly_when_all_sources_ended");
    kani::assert(ms.poll_cursor == 0 && ms.sources.is_empty(), "C15:cursor_zero_when_empty");
}

/// TaggedSource: tags every item with its sender id, forwards end / pending / errors, polls its source once.
struct HavocRes { polls: u8 }
static mut TAG_LAST: u8 = 0; // 0 pending, 1 end, 2 ok, 3 err
static mut TAG_VAL: u8 = 0;
impl Stream for HavocRes {
    type Item = Result<u8, io::Error>;
    fn poll_next(self: Pin<&mut Self>, _cx: &mut Context<'_>) -> Poll<Option<Self::Item>> {
        let me = self.get_mut();
        me.polls += 1;
        let a: u8 = kani::any();
        let v: u8 = kani::any();
        unsafe { TAG_VAL = v; }
        if a == 0 { unsafe { TAG_LAST = 0; } Poll::Pending }
        else if a == 1 { unsafe { TAG_LAST = 1; } Poll::Ready(None) }
        else if a == 2 { unsafe { TAG_LAST = 2; } Poll::Ready(Some(Ok(v))) }
        else { unsafe { TAG_LAST = 3; } Poll::Ready(Some(Err(io::Error::from(io::ErrorKind::Other)))) }
    }
}
#[kani::proof]
pub(crate) fn tagged_one_poll() {
    let id: u32 = kani::any();
    let mut ts = TaggedSource { marker: PhantomData::<u8>, id, source: Box::pin(HavocRes { polls: 0 }) };
    let waker = Waker::noop();
    let mut cx = Context::from_waker(&waker);
    let out = Pin::new(&mut ts).poll_next(&mut cx);
    let (last, v) = unsafe { (TAG_LAST, TAG_VAL) };
    kani::assert(ts.source.polls == 1, "C15:tagged_polls_source_exactly_once");
    kani::assert(ts.id == id, "C15:tag_unchanged");
    match out {
        Poll::Pending => kani::assert(last == 0, "C15:tagged_pending_iff_source_pending"),
        Poll::Ready(None) => kani::assert(last == 1, "C15:tagged_ends_iff_source_ends"),
        Poll::Ready(Some(Ok((t, d)))) => kani::assert(last == 2 && t == id && d == v, "C15:item_tagged_with_sender_id"),
        Poll::Ready(Some(Err(_))) => kani::assert(last == 3, "C15:error_forwarded"),
    }
    core::mem::forget(ts);
}
