//! C16 contracts on the verbatim unsync mpsc (child module: may name private fields of Sender/Receiver/Shared).
//! Wakers are static-vtable RawWakers counting wakes per task in a static table (no Arc, no drop glue);
//! endpoints are `mem::forget`-ed at the end of each harness (drop paths have their own harness).
use std::task::{RawWaker, RawWakerVTable};

use super::*;

const TASKS: usize = 3;
static mut WAKES: [u8; TASKS] = [0; TASKS];
// one static vtable per task (distinct vtables => `will_wake` distinguishes tasks; data pointer unused)
macro_rules! task_vtable { ($vt:ident, $clone:ident, $wake:ident, $id:expr) => {
    static $vt: RawWakerVTable = RawWakerVTable::new($clone, $wake, $wake, vt_drop);
    unsafe fn $clone(_p: *const ()) -> RawWaker { RawWaker::new(core::ptr::null(), &$vt) }
    unsafe fn $wake(_p: *const ()) { unsafe { WAKES[$id] += 1; } }
}; }
task_vtable!(VT0, vt_clone0, vt_wake0, 0);
task_vtable!(VT1, vt_clone1, vt_wake1, 1);
task_vtable!(VT2, vt_clone2, vt_wake2, 2);
unsafe fn vt_drop(_p: *const ()) {}
fn waker(id: usize) -> Waker {
    let vt: &'static RawWakerVTable = match id { 0 => &VT0, 1 => &VT1, _ => &VT2 };
    unsafe { Waker::from_raw(RawWaker::new(core::ptr::null(), vt)) }
}
fn wakes(id: usize) -> u8 { unsafe { WAKES[id] } }
const RX: usize = 0; // task id of the receiver task; senders are 1, 2

/// try_send on a bounded channel holding `len0` items (capacity 2): appends at the back iff not full, otherwise hands the
/// item back unchanged; a registered receiver waker is woken exactly once and cleared.
fn try_send_step<const LEN0: usize>() {
    let (tx, mut rx) = bounded::<u8>(2);
    let (a, b): (u8, u8) = (kani::any(), kani::any());
    if LEN0 >= 1 { tx.try_send(a).unwrap(); }
    if LEN0 >= 2 { tx.try_send(b).unwrap(); }
    let rx_waiting: bool = kani::any();
    if rx_waiting { rx.strong.borrow_mut().recv_waker = Some(waker(RX)); }
    let x: u8 = kani::any();
    let r = tx.try_send(x);
    {
        let sh = rx.strong.borrow();
        if LEN0 < 2 {
            kani::assert(r.is_ok(), "C16:try_send_succeeds_when_not_full");
            kani::assert(sh.buffer.len() == LEN0 + 1 && sh.buffer[LEN0] == x, "C16:try_send_appends_at_the_back");
            if LEN0 >= 1 { kani::assert(sh.buffer[0] == a, "C16:try_send_keeps_queued_items_in_order"); }
            kani::assert(sh.recv_waker.is_none() && wakes(RX) == rx_waiting as u8, "C16:send_wakes_waiting_receiver_exactly_once");
        } else {
            kani::assert(matches!(r, Err(TrySendError::Full(y)) if y == x), "C16:try_send_full_returns_item_unchanged");
            kani::assert(sh.buffer.len() == 2 && sh.buffer[0] == a && sh.buffer[1] == b, "C16:try_send_full_leaves_queue_unchanged");
            kani::assert(wakes(RX) == 0, "C16:failed_send_wakes_nobody");
        }
    }
    std::mem::forget(tx);
    std::mem::forget(rx);
}
#[kani::proof] #[kani::unwind(4)] pub(crate) fn try_send_len0() { try_send_step::<0>() }
#[kani::proof] #[kani::unwind(4)] pub(crate) fn try_send_len1() { try_send_step::<1>() }
#[kani::proof] #[kani::unwind(4)] pub(crate) fn try_send_len2() { try_send_step::<2>() }
