//! C16 contracts on the verbatim unsync mpsc (child module: may name private fields of Sender/Receiver/Shared).
//! Wakers are static-vtable RawWakers counting wakes per task in a static table (no Arc).
//! `<Waker as Drop>::drop` is STUBBED by a no-op on every harness: CBMC otherwise encodes the vtable function-pointer
//! call of every (infeasible) Waker drop inside `Rc<RefCell<Shared>>`'s drop glue and runs out of memory (65 GB measured
//! on a single try_send).  The stub is semantics-preserving here: the harness wakers' drop function is a no-op.
use std::task::{RawWaker, RawWakerVTable};

use super::*;

// ---- stubs for std's Waker dispatch (every call through a RawWakerVTable function pointer makes CBMC consider every
// address-taken `unsafe fn(*const ())` of the binary, tokio's included): the harness wakers are identified by their
// vtable address instead.  Trusted: std::task::Waker dispatches wake/clone/drop through its vtable.
fn noop_waker_drop(_w: &mut Waker) {}
fn stub_waker_wake(w: Waker) {
    let vt = w.vtable() as *const RawWakerVTable;
    unsafe {
        if vt == &VT0 as *const _ { WAKES[0] += 1; } else if vt == &VT1 as *const _ { WAKES[1] += 1; } else if vt == &VT2 as *const _ { WAKES[2] += 1; }
    }
    std::mem::forget(w);
}
fn stub_waker_clone(w: &Waker) -> Waker { unsafe { Waker::new(w.data(), w.vtable()) } }

const TASKS: usize = 3;
static mut WAKES: [u8; TASKS] = [0; TASKS];
// one static vtable per task (distinct vtables => `will_wake` distinguishes tasks; data pointer unused)
macro_rules! task_vtable { ($vt:ident, $clone:ident, $wake:ident, $id:expr) => {
    static $vt: RawWakerVTable = RawWakerVTable::new($clone, $wake, $wake, vt_drop);
    unsafe fn $clone(_p: *const ()) -> RawWaker { RawWaker::new(core::ptr::null(), &$vt) }
    unsafe fn $wake(_p: *const ()) { unsafe { WAKES[$id] += 1; } }
}; }
task_vtable!(VT0, vt_clone0, vt_wake0, 0);
task_vtable!(VT1, vt_clone1, vt_wake1, 1);
task_vtable!(VT2, vt_clone2, vt_wake2, 2);
unsafe fn vt_drop(_p: *const ()) {}
fn waker(id: usize) -> Waker {
    let vt: &'static RawWakerVTable = match id { 0 => &VT0, 1 => &VT1, _ => &VT2 };
    unsafe { Waker::from_raw(RawWaker::new(core::ptr::null(), vt)) }
}
fn wakes(id: usize) -> u8 { unsafe { WAKES[id] } }
const RX: usize = 0; // task id of the receiver task; sender tasks are A = 1, B = 2
const A: usize = 1;
const B: usize = 2;

/// try_send on a bounded channel holding LEN0 items (capacity 2): appends at the back iff not full, otherwise hands the
/// item back unchanged; a registered receiver waker is woken exactly once and cleared.
fn try_send_step<const LEN0: usize>() {
    let (tx, rx) = bounded::<u8>(2);
    let (a, b): (u8, u8) = (kani::any(), kani::any());
    if LEN0 >= 1 { tx.try_send(a).unwrap(); }
    if LEN0 >= 2 { tx.try_send(b).unwrap(); }
    let rx_waiting: bool = kani::any();
    if rx_waiting { rx.strong.borrow_mut().recv_waker = Some(waker(RX)); }
    let x: u8 = kani::any();
    let r = tx.try_send(x);
    {
        let sh = rx.strong.borrow();
        if LEN0 < 2 {
            kani::assert(r.is_ok(), "C16:try_send_succeeds_when_not_full");
            kani::assert(sh.buffer.len() == LEN0 + 1 && sh.buffer[LEN0] == x, "C16:try_send_appends_at_the_back");
            if LEN0 >= 1 { kani::assert(sh.buffer[0] == a, "C16:try_send_keeps_queued_items_in_order"); }
            kani::assert(sh.recv_waker.is_none() && wakes(RX) == rx_waiting as u8, "C16:send_wakes_waiting_receiver_exactly_once");
        } else {
            kani::assert(matches!(r, Err(TrySendError::Full(y)) if y == x), "C16:try_send_full_returns_item_unchanged");
            kani::assert(sh.buffer.len() == 2 && sh.buffer[0] == a && sh.buffer[1] == b, "C16:try_send_full_leaves_queue_unchanged");
            kani::assert(wakes(RX) == 0, "C16:failed_send_wakes_nobody");
        }
    }
    std::mem::forget(tx);
    std::mem::forget(rx);
}
#[kani::proof] #[kani::unwind(4)] #[kani::stub(<std::task::Waker as std::ops::Drop>::drop, noop_waker_drop)] #[kani::stub(std::task::Waker::wake, stub_waker_wake)] #[kani::stub(<std::task::Waker as std::clone::Clone>::clone, stub_waker_clone)]
pub(crate) fn try_send_len0() { try_send_step::<0>() }
#[kani::proof] #[kani::unwind(4)] #[kani::stub(<std::task::Waker as std::ops::Drop>::drop, noop_waker_drop)] #[kani::stub(std::task::Waker::wake, stub_waker_wake)] #[kani::stub(<std::task::Waker as std::clone::Clone>::clone, stub_waker_clone)]
pub(crate) fn try_send_len1() { try_send_step::<1>() }
#[kani::proof] #[kani::unwind(4)] #[kani::stub(<std::task::Waker as std::ops::Drop>::drop, noop_waker_drop)] #[kani::stub(std::task::Waker::wake, stub_waker_wake)] #[kani::stub(<std::task::Waker as std::clone::Clone>::clone, stub_waker_clone)]
pub(crate) fn try_send_len2() { try_send_step::<2>() }

/// poll_recv: pops the front (FIFO), wakes at most one registered sender; empty + live sender => Pending and the
/// receiver's waker is registered; empty + no sender => Ready(None).
fn poll_recv_step<const LEN0: usize>() {
    let (tx, mut rx) = bounded::<u8>(2);
    let (a, b): (u8, u8) = (kani::any(), kani::any());
    if LEN0 >= 1 { tx.try_send(a).unwrap(); }
    if LEN0 >= 2 { tx.try_send(b).unwrap(); }
    let sender_waiting: bool = kani::any();
    if sender_waiting { rx.strong.borrow_mut().send_wakers.push(waker(A)); }
    let senders_alive: bool = kani::any();
    let mut tx = Some(tx);
    if !senders_alive { let mut t = tx.take().unwrap(); t.close_this_sender(); std::mem::forget(t); }
    let w = waker(RX);
    let cx = Context::from_waker(&w);
    let r = rx.poll_recv(&cx);
    {
        let sh = rx.strong.borrow();
        if LEN0 >= 1 {
            kani::assert(r == Poll::Ready(Some(a)), "C16:recv_returns_the_oldest_item");
            kani::assert(sh.buffer.len() == LEN0 - 1 && (LEN0 < 2 || sh.buffer[0] == b), "C16:recv_removes_exactly_the_front");
            kani::assert(wakes(A) == sender_waiting as u8 && sh.send_wakers.is_empty(), "C16:freed_slot_wakes_a_registered_sender");
        } else if !senders_alive {
            kani::assert(r == Poll::Ready(None), "C16:recv_reports_closed_iff_empty_and_no_sender");
        } else {
            kani::assert(r == Poll::Pending && sh.recv_waker.is_some(), "C16:recv_pends_and_registers_waker_when_empty");
            kani::assert(wakes(A) == 0, "C16:no_spurious_sender_wake");
        }
    }
    std::mem::forget(tx);
    std::mem::forget(rx);
}
#[kani::proof] #[kani::unwind(4)] #[kani::stub(<std::task::Waker as std::ops::Drop>::drop, noop_waker_drop)] #[kani::stub(std::task::Waker::wake, stub_waker_wake)] #[kani::stub(<std::task::Waker as std::clone::Clone>::clone, stub_waker_clone)]
pub(crate) fn poll_recv_len0() { poll_recv_step::<0>() }
#[kani::proof] #[kani::unwind(4)] #[kani::stub(<std::task::Waker as std::ops::Drop>::drop, noop_waker_drop)] #[kani::stub(std::task::Waker::wake, stub_waker_wake)] #[kani::stub(<std::task::Waker as std::clone::Clone>::clone, stub_waker_clone)]
pub(crate) fn poll_recv_len1() { poll_recv_step::<1>() }
#[kani::proof] #[kani::unwind(4)] #[kani::stub(<std::task::Waker as std::ops::Drop>::drop, noop_waker_drop)] #[kani::stub(std::task::Waker::wake, stub_waker_wake)] #[kani::stub(<std::task::Waker as std::clone::Clone>::clone, stub_waker_clone)]
pub(crate) fn poll_recv_len2() { poll_recv_step::<2>() }

/// Sink::poll_ready: Ready(Ok) iff there is room (no change), Pending + waker registered when full, Err(Closed) when the
/// receiver is gone; start_send then appends.
#[kani::proof] #[kani::unwind(4)] #[kani::stub(<std::task::Waker as std::ops::Drop>::drop, noop_waker_drop)] #[kani::stub(std::task::Waker::wake, stub_waker_wake)] #[kani::stub(<std::task::Waker as std::clone::Clone>::clone, stub_waker_clone)]
pub(crate) fn sink_poll_ready_step() {
    let (mut tx, rx) = bounded::<u8>(1);
    let full: bool = kani::any();
    let a: u8 = kani::any();
    if full { tx.try_send(a).unwrap(); }
    let w = waker(A);
    let mut cx = Context::from_waker(&w);
    let r = Pin::new(&mut tx).poll_ready(&mut cx);
    {
        let sh = rx.strong.borrow();
        if full {
            kani::assert(r.is_pending() && sh.send_wakers.len() == 1, "C16:full_channel_pends_and_registers_the_sender");
        } else {
            kani::assert(matches!(r, Poll::Ready(Ok(()))) && sh.send_wakers.is_empty(), "C16:room_means_ready_without_registration");
        }
        kani::assert(sh.buffer.len() == full as usize, "C16:poll_ready_does_not_touch_the_queue");
    }
    std::mem::forget(tx);
    std::mem::forget(rx);
}

/// The "no stranded sender" core, from the INITIAL state (bounded history, capacity 1, sender tasks A and B, receiver):
/// ghost `waiting[t]` = t's last poll_ready answered Pending and t was not woken since.  Obligation I2 (from the property):
/// whenever a receive frees a slot while some task is waiting, a *waiting* task is woken by that receive.
/// The history is the interleaving class with one spurious re-poll (allowed by the Future/Sink contract):
/// fill; B polls (Pending); A polls (Pending) k times, k in {1,2}; receive; the woken task sends; receive.
#[kani::proof] #[kani::unwind(5)] #[kani::stub(<std::task::Waker as std::ops::Drop>::drop, noop_waker_drop)] #[kani::stub(std::task::Waker::wake, stub_waker_wake)] #[kani::stub(<std::task::Waker as std::clone::Clone>::clone, stub_waker_clone)]
pub(crate) fn no_stranded_sender_history() {
    let (tx_a, mut rx) = bounded::<u8>(1);
    let mut tx_a = tx_a;
    let mut tx_b = tx_a.clone();
    let (wa, wb, wr) = (waker(A), waker(B), waker(RX));
    let mut waiting = [false; TASKS];
    tx_a.try_send(kani::any()).unwrap();                       // channel full
    let mut cxb = Context::from_waker(&wb);
    kani::assert(Pin::new(&mut tx_b).poll_ready(&mut cxb).is_pending(), "C16:full_channel_pends_and_registers_the_sender");
    waiting[B] = true;
    let repolls: u8 = kani::any();
    kani::assume(repolls >= 1 && repolls <= 2);
    let mut i = 0;
    while i < repolls {
        let mut cxa = Context::from_waker(&wa);
        kani::assert(Pin::new(&mut tx_a).poll_ready(&mut cxa).is_pending(), "C16:full_channel_pends_and_registers_the_sender");
        waiting[A] = true;
        i += 1;
    }
    // two receive / refill rounds
    let mut round = 0;
    while round < 2 {
        let before = (wakes(A), wakes(B));
        let cxr = Context::from_waker(&wr);
        let got = rx.poll_recv(&cxr);
        kani::assert(matches!(got, Poll::Ready(Some(_))), "C16:recv_returns_the_oldest_item");
        let woke_a = wakes(A) > before.0;
        let woke_b = wakes(B) > before.1;
        if waiting[A] || waiting[B] {
            kani::assert((woke_a && waiting[A]) || (woke_b && waiting[B]), "C16:freed_slot_wakes_a_waiting_sender_none_stranded");
        }
        // the woken waiting task runs: polls ready (must succeed: a slot is free) and sends
        if woke_a && waiting[A] {
            waiting[A] = false;
            let mut cxa = Context::from_waker(&wa);
            kani::assert(matches!(Pin::new(&mut tx_a).poll_ready(&mut cxa), Poll::Ready(Ok(()))), "C16:woken_sender_finds_room");
            Pin::new(&mut tx_a).start_send(kani::any()).unwrap();
        } else if woke_b && waiting[B] {
            waiting[B] = false;
            let mut cxb = Context::from_waker(&wb);
            kani::assert(matches!(Pin::new(&mut tx_b).poll_ready(&mut cxb), Poll::Ready(Ok(()))), "C16:woken_sender_finds_room");
            Pin::new(&mut tx_b).start_send(kani::any()).unwrap();
        }
        round += 1;
    }
    std::mem::forget(tx_a);
    std::mem::forget(tx_b);
    std::mem::forget(rx);
}
