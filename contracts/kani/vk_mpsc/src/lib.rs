//! C16: dfir_rs::util::unsync::mpsc, the whole file extracted verbatim by hvx on every run (src/mpsc.rs is generated).
#![allow(dead_code, unused_imports, clippy::all)]
pub mod mpsc;
