//! C05: RoaringTombstoneSet (real adapter code over the RoaringTreemap contract double) satisfies the TombstoneSet contract that the
//! tombstone merge harnesses (vk_lat coll3::tombstone_*) assume: extend / from_iter add exactly the offered keys IN ANY ORDER, WITH
//! DUPLICATES AND RE-DELIVERIES; union_with is set union and returns the old length; len is the cardinality; contains is membership;
//! into_iter yields every key once.  Bounded: <= 2 keys present, <= 2 keys offered, keys over a 4-value domain spread over both u32 halves.
use lattices::cc_traits::Len;
use lattices::tombstone::TombstoneSet;

use super::RoaringTombstoneSet;

/// keys from a 4-value domain; two of them differ only in the high 32 bits (the real treemap splits there)
fn key() -> u64 { let k: u8 = kani::any(); kani::assume(k < 4); if k < 2 { k as u64 } else { ((k as u64) << 32) | 1 } }
fn has(xs: &[u64; 2], n: usize, q: u64) -> bool { (n >= 1 && xs[0] == q) || (n >= 2 && xs[1] == q) }
fn card2(a: &[u64; 2], na: usize, b: &[u64; 2], nb: usize) -> usize {
    let mut c = 0;
    if na >= 1 { c += 1; }
    if na >= 2 && a[1] != a[0] { c += 1; }
    if nb >= 1 && !has(a, na, b[0]) { c += 1; }
    if nb >= 2 && !has(a, na, b[1]) && b[1] != b[0] { c += 1; }
    c
}
fn build(xs: &[u64; 2], n: usize) -> RoaringTombstoneSet {
    let mut s = RoaringTombstoneSet::new();
    let mut i = 0;
    while i < n { s.insert(xs[i]); i += 1; }
    s
}
/// an iterator over <= 2 keys answering any legal size_hint
struct Offer { xs: [u64; 2], n: usize, next: usize }
impl Iterator for Offer {
    type Item = u64;
    fn next(&mut self) -> Option<u64> { if self.next < self.n { self.next += 1; Some(self.xs[self.next - 1]) } else { None } }
    fn size_hint(&self) -> (usize, Option<usize>) {
        let rem = self.n - self.next;
        let lo: usize = kani::any();
        kani::assume(lo <= rem);
        (lo, if kani::any() { None } else { Some(rem) })
    }
}

#[kani::proof] #[kani::unwind(7)]
pub(crate) fn roaring_tombstones_insert_contains_len() {
    let xs = [key(), key()];
    let n: usize = kani::any();
    kani::assume(n <= 2);
    let mut s = RoaringTombstoneSet::new();
    kani::assert(s.len() == 0, "C05:new_tombstone_set_is_empty");
    let mut i = 0;
    while i < n {
        let fresh = !has(&xs, i, xs[i]);
        kani::assert(s.insert(xs[i]) == fresh, "C05:tombstone_insert_reports_true_exactly_for_a_new_key");
        i += 1;
    }
    let q = key();
    kani::assert(s.contains(&q) == has(&xs, n, q), "C05:tombstone_contains_iff_inserted");
    kani::assert(TombstoneSet::contains(&s, &q) == has(&xs, n, q), "C05:tombstone_contains_iff_inserted");
    kani::assert(s.len() == card2(&xs, n, &xs, 0), "C05:tombstone_len_is_cardinality");
}

/// extend in ANY order (ascending, descending, duplicates, keys already present): afterwards exactly old ∪ offered
#[kani::proof] #[kani::unwind(7)]
pub(crate) fn roaring_tombstones_extend_is_union_any_order() {
    let (a, b) = ([key(), key()], [key(), key()]);
    let (na, nb): (usize, usize) = (kani::any(), kani::any());
    kani::assume(na <= 2 && nb <= 2);
    let mut s = build(&a, na);
    s.extend(Offer { xs: b, n: nb, next: 0 });
    let q = key();
    kani::assert(s.contains(&q) == (has(&a, na, q) || has(&b, nb, q)), "C05:tombstone_extend_adds_exactly_the_offered_keys_in_any_order");
    kani::assert(s.len() == card2(&a, na, &b, nb), "C05:tombstone_len_is_cardinality");
}

#[kani::proof] #[kani::unwind(7)]
pub(crate) fn roaring_tombstones_union_with_is_union() {
    let (a, b) = ([key(), key()], [key(), key()]);
    let (na, nb): (usize, usize) = (kani::any(), kani::any());
    kani::assume(na <= 2 && nb <= 2);
    let mut s = build(&a, na);
    let o = build(&b, nb);
    let old = s.len();
    let r = s.union_with(&o);
    kani::assert(r == old, "C05:union_with_returns_the_old_length");
    let q = key();
    kani::assert(s.contains(&q) == (has(&a, na, q) || has(&b, nb, q)), "C05:tombstone_union_with_is_set_union");
    kani::assert(o.contains(&q) == has(&b, nb, q), "C05:union_with_leaves_the_other_set_unchanged");
    kani::assert(s.len() == card2(&a, na, &b, nb), "C05:tombstone_len_is_cardinality");
}

#[kani::proof] #[kani::unwind(7)]
pub(crate) fn roaring_tombstones_from_iter_into_iter() {
    let b = [key(), key()];
    let nb: usize = kani::any();
    kani::assume(nb <= 2);
    let s: RoaringTombstoneSet = Offer { xs: b, n: nb, next: 0 }.collect();
    let q = key();
    kani::assert(s.contains(&q) == has(&b, nb, q), "C05:tombstone_from_iter_holds_exactly_the_offered_keys");
    let want = card2(&b, nb, &b, 0);
    kani::assert(s.len() == want, "C05:tombstone_len_is_cardinality");
    let mut seen = 0;
    let mut prev: Option<u64> = None;
    for k in s {
        kani::assert(has(&b, nb, k), "C05:tombstone_into_iter_yields_only_held_keys");
        kani::assert(prev != Some(k), "C05:tombstone_into_iter_yields_each_key_once");
        prev = Some(k);
        seen += 1;
    }
    kani::assert(seen == want, "C05:tombstone_into_iter_yields_every_key");
}
