//! C05 (partial): lattices::tombstone::RoaringTombstoneSet -- its struct and every impl spliced from lattices/src/tombstone.rs by hvx
//! (src/tombstone.rs is generated) -- compiled here over a contract double of roaring::RoaringTreemap, against the TombstoneSet contract
//! the C05 merge harnesses assume of "any tombstone set".
#![allow(dead_code, unused_imports, clippy::all)]
pub mod tombstone;
