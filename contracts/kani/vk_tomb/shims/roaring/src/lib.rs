//! CONTRACT DOUBLE of `roaring::RoaringTreemap` (roaring 0.11): a strictly ascending array of at most CAP u64 values with the documented
//! behaviour of the methods the tombstone adapter may use.  The real treemap (BTreeMap<u32, RoaringBitmap>) is outside CBMC's reach.
//! Documented behaviour mirrored here (roaring-0.11.4/src/treemap/{inherent,iter,ops}.rs):
//!   insert -> true iff the value was absent; remove -> true iff present; contains; len() -> u64; is_empty; min / max;
//!   push(v) -> inserts and returns true iff v > max (or the set is empty), otherwise leaves the set unchanged and returns false;
//!   append(iter) -> pulls the first value, fails (value consumed and dropped) if it is <= max; then pushes values while they strictly
//!   ascend; the first non-ascending value is consumed, dropped, and an error is returned; Ok(count) otherwise;
//!   Extend<u64> / FromIterator<u64> insert every value; `&a | &b`, `|=` are set union; iteration is ascending, each value once.
//! More than CAP distinct values: panic (the harnesses never hold more than CAP values).
pub const CAP: usize = 4;

#[derive(Clone, Debug, Default, PartialEq)]
pub struct RoaringTreemap { n: usize, v: [u64; CAP] }

#[derive(Debug, PartialEq, Eq)]
pub struct NonSortedIntegers { valid_until: u64 }
impl NonSortedIntegers { pub fn valid_until(&self) -> u64 { self.valid_until } }

fn over_capacity() -> ! {
    panic!("contract double of RoaringTreemap: more than CAP values")
}

impl RoaringTreemap {
    pub fn new() -> Self { RoaringTreemap { n: 0, v: [0; CAP] } }
    pub fn full() -> Self { over_capacity() }
    pub fn len(&self) -> u64 { self.n as u64 }
    pub fn is_empty(&self) -> bool { self.n == 0 }
    pub fn clear(&mut self) { self.n = 0; }
    pub fn min(&self) -> Option<u64> { if self.n == 0 { None } else { Some(self.v[0]) } }
    pub fn max(&self) -> Option<u64> { if self.n == 0 { None } else { Some(self.v[self.n - 1]) } }
    pub fn contains(&self, value: u64) -> bool {
        let mut i = 0;
        while i < self.n { if self.v[i] == value { return true; } i += 1; }
        false
    }
    pub fn insert(&mut self, value: u64) -> bool {
        let mut pos = 0;
        while pos < self.n && self.v[pos] < value { pos += 1; }
        if pos < self.n && self.v[pos] == value { return false; }
        if self.n == CAP { over_capacity(); }
        let mut j = self.n;
        while j > pos { self.v[j] = self.v[j - 1]; j -= 1; }
        self.v[pos] = value;
        self.n += 1;
        true
    }
    pub fn remove(&mut self, value: u64) -> bool {
        let mut pos = 0;
        while pos < self.n && self.v[pos] != value { pos += 1; }
        if pos == self.n { return false; }
        while pos + 1 < self.n { self.v[pos] = self.v[pos + 1]; pos += 1; }
        self.n -= 1;
        true
    }
    pub fn push(&mut self, value: u64) -> bool {
        match self.max() { Some(m) if value <= m => false, _ => self.insert(value) }
    }
    pub fn append<I: IntoIterator<Item = u64>>(&mut self, iterator: I) -> Result<u64, NonSortedIntegers> {
        let mut iterator = iterator.into_iter();
        let mut prev = match (iterator.next(), self.max()) {
            (None, _) => return Ok(0),
            (Some(first), Some(max)) if first <= max => return Err(NonSortedIntegers { valid_until: 0 }),
            (Some(first), _) => first,
        };
        self.insert(prev);
        let mut count = 1;
        for value in iterator {
            if value <= prev { return Err(NonSortedIntegers { valid_until: count }); }
            self.insert(value);
            prev = value;
            count += 1;
        }
        Ok(count)
    }
    pub fn iter(&self) -> treemap::Iter<'_> { treemap::Iter { s: self, next: 0 } }
    pub fn is_subset(&self, other: &Self) -> bool { let mut i = 0; while i < self.n { if !other.contains(self.v[i]) { return false; } i += 1; } true }
    pub fn is_superset(&self, other: &Self) -> bool { other.is_subset(self) }
    pub fn is_disjoint(&self, other: &Self) -> bool { let mut i = 0; while i < self.n { if other.contains(self.v[i]) { return false; } i += 1; } true }
    pub fn union_len(&self, other: &Self) -> u64 { (self | other).len() }
}

pub mod treemap {
    use super::RoaringTreemap;
    pub struct Iter<'a> { pub(super) s: &'a RoaringTreemap, pub(super) next: usize }
    impl<'a> Iterator for Iter<'a> {
        type Item = u64;
        fn next(&mut self) -> Option<u64> { if self.next < self.s.n { self.next += 1; Some(self.s.v[self.next - 1]) } else { None } }
        fn size_hint(&self) -> (usize, Option<usize>) { let r = self.s.n - self.next; (r, Some(r)) }
    }
    pub struct IntoIter { pub(super) s: RoaringTreemap, pub(super) next: usize }
    impl Iterator for IntoIter {
        type Item = u64;
        fn next(&mut self) -> Option<u64> { if self.next < self.s.n { self.next += 1; Some(self.s.v[self.next - 1]) } else { None } }
        fn size_hint(&self) -> (usize, Option<usize>) { let r = self.s.n - self.next; (r, Some(r)) }
    }
}

impl IntoIterator for RoaringTreemap {
    type Item = u64;
    type IntoIter = treemap::IntoIter;
    fn into_iter(self) -> treemap::IntoIter { treemap::IntoIter { s: self, next: 0 } }
}
impl<'a> IntoIterator for &'a RoaringTreemap {
    type Item = u64;
    type IntoIter = treemap::Iter<'a>;
    fn into_iter(self) -> treemap::Iter<'a> { self.iter() }
}
impl Extend<u64> for RoaringTreemap {
    fn extend<I: IntoIterator<Item = u64>>(&mut self, iter: I) { for x in iter { self.insert(x); } }
}
impl<'a> Extend<&'a u64> for RoaringTreemap {
    fn extend<I: IntoIterator<Item = &'a u64>>(&mut self, iter: I) { for x in iter { self.insert(*x); } }
}
impl FromIterator<u64> for RoaringTreemap {
    fn from_iter<I: IntoIterator<Item = u64>>(iter: I) -> Self { let mut s = RoaringTreemap::new(); s.extend(iter); s }
}
impl core::ops::BitOr<&RoaringTreemap> for &RoaringTreemap {
    type Output = RoaringTreemap;
    fn bitor(self, rhs: &RoaringTreemap) -> RoaringTreemap { let mut r = self.clone(); let mut i = 0; while i < rhs.n { r.insert(rhs.v[i]); i += 1; } r }
}
impl core::ops::BitOr<RoaringTreemap> for RoaringTreemap {
    type Output = RoaringTreemap;
    fn bitor(self, rhs: RoaringTreemap) -> RoaringTreemap { &self | &rhs }
}
impl core::ops::BitOr<&RoaringTreemap> for RoaringTreemap {
    type Output = RoaringTreemap;
    fn bitor(self, rhs: &RoaringTreemap) -> RoaringTreemap { &self | rhs }
}
impl core::ops::BitOrAssign<&RoaringTreemap> for RoaringTreemap {
    fn bitor_assign(&mut self, rhs: &RoaringTreemap) { let mut i = 0; while i < rhs.n { self.insert(rhs.v[i]); i += 1; } }
}
impl core::ops::BitOrAssign<RoaringTreemap> for RoaringTreemap {
    fn bitor_assign(&mut self, rhs: RoaringTreemap) { *self |= &rhs; }
}
