//! C36 (partial, bounded): decision and release contracts of the un-keyed simulator hooks.
//! Child module of the verbatim runtime.rs: private fields are reachable.  The bolero driver is the havoc driver of the bolero
//! shim: every `gen_*` answers any value within the requested range, i.e. every decision sequence.
//! Released items are observed on the real unsync mpsc channel (`hvx_len/hvx_get`: harness-only read accessors appended to
//! the verbatim mpsc.rs).  `log_writer` is `None` in every harness: the log-formatting branches are not covered.
use bolero::HDriver;
use bolero::generator::bolero_generator::driver::object::DynDriver;
use dfir_rs::util::unsync::mpsc::{Receiver, unbounded};

use super::*;

fn no_debug(_: &u8) -> Option<String> { None }
const LOC: HookLocationMeta = ("", "", "");

/// a queue of N (concrete) symbolic items
fn items<const N: usize>() -> [u8; N] { kani::any() }
fn queue(items: &[u8]) -> Rc<RefCell<VecDeque<u8>>> {
    let mut q = VecDeque::new();
    let mut i = 0;
    while i < items.len() { q.push_back(items[i]); i += 1; }
    Rc::new(RefCell::new(q))
}
fn vec_of(items: &[u8]) -> Vec<u8> {
    let mut v = Vec::new();
    let mut i = 0;
    while i < items.len() { v.push(items[i]); i += 1; }
    v
}
fn count(xs: &[u8], n: usize, v: u8) -> usize { let mut c = 0; let mut i = 0; while i < n { if xs[i] == v { c += 1; } i += 1; } c }
/// `a[..n]` and `b[..n]` are the same multiset
fn same_multiset(a: &[u8], b: &[u8], n: usize) -> bool {
    let mut i = 0;
    while i < n { if count(a, n, a[i]) != count(b, n, a[i]) { return false; } i += 1; }
    true
}
/// released ++ left, flattened into one array of length N
fn concat<const N: usize>(released: &[u8], left: &VecDeque<u8>) -> [u8; N] {
    let mut out = [0u8; N];
    let mut i = 0;
    while i < N { out[i] = if i < released.len() { released[i] } else { left[i - released.len()] }; i += 1; }
    out
}
/// the channel holds exactly `exp`, in order
fn sent_exactly(rx: &Receiver<u8>, exp: &[u8]) -> bool {
    if rx.hvx_len() != exp.len() { return false; }
    let mut i = 0;
    while i < exp.len() { if rx.hvx_get(i) != exp[i] { return false; } i += 1; }
    true
}

// ---------------------------------------------------------------------------------------------- StreamHook<_, TotalOrder>
/// TotalOrder: the released batch is a prefix: R ++ Q' == Q; result == (R != []); forced => non-trivial.
fn stream_total_order<const N: usize>() {
    let it = items::<N>();
    let input = queue(&it);
    let (tx, rx) = unbounded::<u8>();
    let mut h: StreamHook<u8, TotalOrder> = StreamHook { input: input.clone(), to_release: None, output: tx, batch_location: LOC,
                                                         format_item_debug: no_debug, _order: std::marker::PhantomData };
    kani::assert(h.current_decision().is_none(), "C36:no_decision_before_deciding");
    kani::assert(h.can_make_nontrivial_decision() == (N > 0), "C36:nontrivial_possible_iff_items_queued");
    let force: bool = kani::any();
    kani::assume(!force || N > 0); // run_hooks only forces hooks that can decide non-trivially (checked in compiled::harness)
    let mut d = HDriver;
    let r = h.autonomous_decision(&mut Borrowed(&mut d), force);
    {
        let released = h.to_release.as_ref().unwrap();
        let left = input.borrow();
        kani::assert(released.len() + left.len() == N, "C36:decision_conserves_item_count");
        let got = concat::<N>(released, &left);
        let mut i = 0;
        while i < N { kani::assert(got[i] == it[i], "C36:total_order_releases_a_prefix_in_order"); i += 1; }
        kani::assert(r == !released.is_empty() && h.current_decision() == Some(r), "C36:result_reports_whether_something_is_released");
        kani::assert(!force || r, "C36:forced_decision_is_nontrivial");
    }
    std::mem::forget(h); std::mem::forget(rx); std::mem::forget(input);
}
#[kani::proof] #[kani::unwind(5)] pub(crate) fn stream_total_order_n0() { stream_total_order::<0>() }
#[kani::proof] #[kani::unwind(5)] pub(crate) fn stream_total_order_n1() { stream_total_order::<1>() }
#[kani::proof] #[kani::unwind(5)] pub(crate) fn stream_total_order_n2() { stream_total_order::<2>() }
#[kani::proof] #[kani::unwind(6)] pub(crate) fn stream_total_order_n3() { stream_total_order::<3>() }

// ---------------------------------------------------------------------------------------------- StreamHook<_, NoOrder>
/// NoOrder: the released batch plus what is left is the same multiset as the queue.
fn stream_no_order<const N: usize>() {
    let it = items::<N>();
    let input = queue(&it);
    let (tx, rx) = unbounded::<u8>();
    let mut h: StreamHook<u8, NoOrder> = StreamHook { input: input.clone(), to_release: None, output: tx, batch_location: LOC,
                                                      format_item_debug: no_debug, _order: std::marker::PhantomData };
    kani::assert(h.can_make_nontrivial_decision() == (N > 0), "C36:nontrivial_possible_iff_items_queued");
    let force: bool = kani::any();
    kani::assume(!force || N > 0);
    let mut d = HDriver;
    let r = h.autonomous_decision(&mut Borrowed(&mut d), force);
    {
        let released = h.to_release.as_ref().unwrap();
        let left = input.borrow();
        kani::assert(released.len() + left.len() == N, "C36:decision_conserves_item_count");
        let got = concat::<N>(released, &left);
        kani::assert(same_multiset(&got, &it, N), "C36:no_order_releases_a_sub_multiset_and_keeps_the_rest");
        kani::assert(r == !released.is_empty() && h.current_decision() == Some(r), "C36:result_reports_whether_something_is_released");
        kani::assert(!force || r, "C36:forced_decision_is_nontrivial");
    }
    std::mem::forget(h); std::mem::forget(rx); std::mem::forget(input);
}
#[kani::proof] #[kani::unwind(5)] pub(crate) fn stream_no_order_n0() { stream_no_order::<0>() }
#[kani::proof] #[kani::unwind(5)] pub(crate) fn stream_no_order_n1() { stream_no_order::<1>() }
#[kani::proof] #[kani::unwind(5)] pub(crate) fn stream_no_order_n2() { stream_no_order::<2>() }

// ---------------------------------------------------------------------------------------------- release of a Vec batch
/// release_decision of the three hooks that hold `to_release: Option<Vec<T>>` and send item by item:
/// exactly the decided batch arrives on the output, in order; the decision is consumed (nothing is released twice);
/// the pending queue is untouched.
macro_rules! release_vec {
    ($name:ident, $n:literal, $mk:expr) => {
        #[kani::proof] #[kani::unwind(5)] pub(crate) fn $name() {
            let batch = items::<$n>();
            let pending = items::<1>();
            let input = queue(&pending);
            let (tx, rx) = unbounded::<u8>();
            let mut h = $mk(input.clone(), Some(vec_of(&batch)), tx);
            h.release_decision(None);
            kani::assert(sent_exactly(&rx, &batch), "C36:release_sends_exactly_the_decided_batch_in_order");
            kani::assert(h.to_release.is_none() && h.current_decision().is_none(), "C36:released_decision_is_consumed");
            kani::assert(input.borrow().len() == 1 && input.borrow()[0] == pending[0], "C36:release_leaves_pending_items_alone");
            std::mem::forget(h); std::mem::forget(rx); std::mem::forget(input);
        }
    };
}
fn mk_total(input: Rc<RefCell<VecDeque<u8>>>, to_release: Option<Vec<u8>>, output: Sender<u8>) -> StreamHook<u8, TotalOrder> {
    StreamHook { input, to_release, output, batch_location: LOC, format_item_debug: no_debug, _order: std::marker::PhantomData }
}
fn mk_noorder(input: Rc<RefCell<VecDeque<u8>>>, to_release: Option<Vec<u8>>, output: Sender<u8>) -> StreamHook<u8, NoOrder> {
    StreamHook { input, to_release, output, batch_location: LOC, format_item_debug: no_debug, _order: std::marker::PhantomData }
}
fn mk_top(input: Rc<RefCell<VecDeque<u8>>>, to_release: Option<Vec<u8>>, output: Sender<u8>) -> TopLevelStreamOrderHook<u8> {
    TopLevelStreamOrderHook { input, to_release, output, location: LOC, format_item_debug: no_debug }
}
release_vec!(release_total_order_n0, 0, mk_total);
release_vec!(release_total_order_n2, 2, mk_total);
release_vec!(release_no_order_n0, 0, mk_noorder);
release_vec!(release_no_order_n2, 2, mk_noorder);
release_vec!(release_top_level_order_n0, 0, mk_top);
release_vec!(release_top_level_order_n1, 1, mk_top);

// ---------------------------------------------------------------------------------------------- SingletonHook
/// SingletonHook: a decision either re-releases the last released snapshot (queue untouched) or releases the snapshot at some
/// index and drops every OLDER one from the queue -- so a later decision can never go back to an older version.
fn singleton<const N: usize>() {
    let it = items::<N>();
    let input = queue(&it);
    let (tx, rx) = unbounded::<u8>();
    let mut h = SingletonHook::new(input.clone(), tx, LOC, no_debug);
    let last: Option<u8> = kani::any();
    h.last_released = last;
    kani::assert(h.can_make_nontrivial_decision() == (N > 0), "C36:nontrivial_possible_iff_items_queued");
    kani::assert(h.is_ready() == (N > 0 || last.is_some()), "C36:singleton_ready_iff_some_version_exists");
    kani::assume(h.is_ready()); // SimTick::can_run: a tick is scheduled only when every hook is ready
    let force: bool = kani::any();
    kani::assume(!force || N > 0);
    let mut d = HDriver;
    let r = h.autonomous_decision(&mut Borrowed(&mut d), force);
    let (x, is_new) = h.to_release.unwrap();
    h.to_release = Some((x, is_new));
    kani::assert(r == is_new && h.current_decision() == Some(r), "C36:result_reports_whether_something_is_released");
    kani::assert(!force || r, "C36:forced_decision_is_nontrivial");
    {
        let left = input.borrow();
        if !is_new {
            kani::assert(Some(x) == last, "C36:re_released_snapshot_is_the_last_released_one");
            kani::assert(left.len() == N, "C36:re_release_leaves_pending_versions_alone");
            let mut i = 0;
            while i < N { kani::assert(left[i] == it[i], "C36:re_release_leaves_pending_versions_alone"); i += 1; }
        } else {
            kani::assert(N > 0 && left.len() < N, "C36:new_snapshot_comes_from_the_queue");
            let idx = N - 1 - left.len(); // the released version's index: everything after it must still be queued, in order
            kani::assert(x == it[idx], "C36:new_snapshot_comes_from_the_queue");
            let mut i = 0;
            while i < left.len() { kani::assert(left[i] == it[idx + 1 + i], "C36:snapshot_never_goes_back_older_versions_dropped_newer_kept"); i += 1; }
        }
    }
    // release
    h.release_decision(None);
    kani::assert(sent_exactly(&rx, &[x]), "C36:release_sends_exactly_the_decided_snapshot");
    kani::assert(h.last_released == Some(x), "C36:last_released_tracks_the_released_snapshot");
    kani::assert(h.to_release.is_none() && h.current_decision().is_none(), "C36:released_decision_is_consumed");
    std::mem::forget(h); std::mem::forget(rx); std::mem::forget(input);
}
#[kani::proof] #[kani::unwind(5)] pub(crate) fn singleton_n0() { singleton::<0>() }
#[kani::proof] #[kani::unwind(5)] pub(crate) fn singleton_n1() { singleton::<1>() }
#[kani::proof] #[kani::unwind(5)] pub(crate) fn singleton_n2() { singleton::<2>() }
#[kani::proof] #[kani::unwind(6)] pub(crate) fn singleton_n3() { singleton::<3>() }

// ---------------------------------------------------------------------------------------------- PassthroughSingletonHook
/// PassthroughSingletonHook: releases the latest snapshot and discards the older ones; trivial iff nothing queued.
fn passthrough_singleton<const N: usize>() {
    let it = items::<N>();
    let input = queue(&it);
    let (tx, rx) = unbounded::<u8>();
    let mut h = PassthroughSingletonHook::new(input.clone(), tx, LOC, no_debug);
    kani::assert(h.can_make_nontrivial_decision() == (N > 0), "C36:nontrivial_possible_iff_items_queued");
    let mut d = HDriver;
    let r = h.autonomous_decision(&mut Borrowed(&mut d), kani::any());
    kani::assert(r == (N > 0), "C36:result_reports_whether_something_is_released");
    if N > 0 {
        kani::assert(h.to_release == Some(it[N - 1]) && input.borrow().is_empty(), "C36:singleton_releases_latest_snapshot_only");
        h.release_decision(None);
        kani::assert(sent_exactly(&rx, &[it[N - 1]]), "C36:release_sends_exactly_the_decided_snapshot");
        kani::assert(h.to_release.is_none(), "C36:released_decision_is_consumed");
    } else {
        kani::assert(h.to_release.is_none(), "C36:nothing_released_from_empty_queue");
    }
    std::mem::forget(h); std::mem::forget(rx); std::mem::forget(input);
}
#[kani::proof] #[kani::unwind(5)] pub(crate) fn passthrough_singleton_n0() { passthrough_singleton::<0>() }
#[kani::proof] #[kani::unwind(5)] pub(crate) fn passthrough_singleton_n2() { passthrough_singleton::<2>() }

// ---------------------------------------------------------------------------------------------- TopLevelStreamOrderHook
/// TopLevelStreamOrderHook: releases at most one queued item; released + left is the queue as a multiset.
fn top_level_order<const N: usize>() {
    let it = items::<N>();
    let input = queue(&it);
    let (tx, rx) = unbounded::<u8>();
    let mut h = mk_top(input.clone(), None, tx);
    kani::assert(h.can_make_nontrivial_decision() == (N > 0), "C36:nontrivial_possible_iff_items_queued");
    let force: bool = kani::any();
    kani::assume(!force || N > 0);
    let mut d = HDriver;
    let r = h.autonomous_decision(&mut Borrowed(&mut d), force);
    {
        let released = h.to_release.as_ref().unwrap();
        let left = input.borrow();
        kani::assert(released.len() <= 1, "C36:top_level_hook_releases_one_item_at_a_time");
        kani::assert(released.len() + left.len() == N, "C36:decision_conserves_item_count");
        let got = concat::<N>(released, &left);
        kani::assert(same_multiset(&got, &it, N), "C36:no_order_releases_a_sub_multiset_and_keeps_the_rest");
        kani::assert(r == !released.is_empty() && h.current_decision() == Some(r), "C36:result_reports_whether_something_is_released");
        kani::assert(!force || r, "C36:forced_decision_is_nontrivial");
    }
    std::mem::forget(h); std::mem::forget(rx); std::mem::forget(input);
}
#[kani::proof] #[kani::unwind(5)] pub(crate) fn top_level_order_n0() { top_level_order::<0>() }
#[kani::proof] #[kani::unwind(5)] pub(crate) fn top_level_order_n1() { top_level_order::<1>() }
#[kani::proof] #[kani::unwind(5)] pub(crate) fn top_level_order_n2() { top_level_order::<2>() }

// ---------------------------------------------------------------------------------------------- TopLevelFoldHook
/// TopLevelFoldHook: selects a non-empty sub-multiset (when anything is queued), the rest stays queued.
fn top_level_fold<const N: usize>() { top_level_fold_with::<N>(items::<N>()) }
fn top_level_fold_with<const N: usize>(it: [u8; N]) {
    let input = queue(&it);
    let (tx, rx) = unbounded::<Vec<u8>>();
    let mut h = TopLevelFoldHook { input: input.clone(), to_release: None, output: tx, location: LOC, format_item_debug: no_debug };
    kani::assert(h.can_make_nontrivial_decision() == (N > 0), "C36:nontrivial_possible_iff_items_queued");
    let force: bool = kani::any();
    kani::assume(!force || N > 0);
    let mut d = HDriver;
    let r = h.autonomous_decision(&mut Borrowed(&mut d), force);
    {
        let released = h.to_release.as_ref().unwrap();
        let left = input.borrow();
        kani::assert(released.len() + left.len() == N, "C36:decision_conserves_item_count");
        let got = concat::<N>(released, &left);
        kani::assert(same_multiset(&got, &it, N), "C36:no_order_releases_a_sub_multiset_and_keeps_the_rest");
        kani::assert(r == !released.is_empty() && h.current_decision() == Some(r), "C36:result_reports_whether_something_is_released");
        kani::assert(r == (N > 0), "C36:fold_hook_releases_something_whenever_anything_is_queued");
    }
    // release: the whole batch is sent as ONE message
    let batch: Vec<u8> = h.to_release.clone().unwrap();
    h.release_decision(None);
    kani::assert(rx.hvx_len() == 1 && rx.hvx_get(0) == batch, "C36:release_sends_exactly_the_decided_batch_in_order");
    kani::assert(h.to_release.is_none(), "C36:released_decision_is_consumed");
    std::mem::forget(h); std::mem::forget(rx); std::mem::forget(input);
}
#[kani::proof] #[kani::unwind(5)] pub(crate) fn top_level_fold_n0() { top_level_fold::<0>() }
#[kani::proof] #[kani::unwind(5)] pub(crate) fn top_level_fold_n1() { top_level_fold::<1>() }
/// MEASURED: > 1200 s of CBMC as well; in NO tier.  Two CONCRETE distinct items (the hook never inspects item values, so distinct tags show loss / duplication / invention just as
/// symbolic values would); every decision of the driver is still symbolic
#[kani::proof] #[kani::unwind(5)] pub(crate) fn deep_top_level_fold_two_tagged_items() { top_level_fold_with::<2>([10, 20]) }
#[kani::proof] #[kani::unwind(5)] pub(crate) fn deep_top_level_fold_n2()   /* > 15 min of CBMC (drain + enumerate + Fisher-Yates over a symbolic subset): in NO tier */ { top_level_fold::<2>() }

// ---------------------------------------------------------------------------------------------- inline hooks
/// StreamOrderHook (inline): the observed batch is a permutation of the input batch; the input slot is emptied.
fn stream_order_inline<const N: usize>() {
    let it = items::<N>();
    let input = Rc::new(RefCell::new(Some(vec_of(&it))));
    let (tx, rx) = unbounded::<Vec<u8>>();
    let mut h = StreamOrderHook::new(input.clone(), tx, LOC, no_debug);
    kani::assert(h.pending_decision() && !h.has_decision(), "C36:inline_hook_pending_iff_input_present");
    let mut d = HDriver;
    h.autonomous_decision(&mut Borrowed(&mut d));
    kani::assert(h.has_decision() && input.borrow().is_none(), "C36:inline_decision_takes_the_input_batch");
    let batch: Vec<u8> = h.to_release.clone().unwrap();
    kani::assert(batch.len() == N && same_multiset(&batch, &it, N), "C36:observed_order_is_a_permutation_of_the_batch");
    h.release_decision(None);
    kani::assert(rx.hvx_len() == 1 && rx.hvx_get(0) == batch, "C36:release_sends_exactly_the_decided_batch_in_order");
    kani::assert(!h.has_decision(), "C36:released_decision_is_consumed");
    std::mem::forget(h); std::mem::forget(rx); std::mem::forget(input);
}
#[kani::proof] #[kani::unwind(5)] pub(crate) fn stream_order_inline_n0() { stream_order_inline::<0>() }
#[kani::proof] #[kani::unwind(5)] pub(crate) fn stream_order_inline_n2() { stream_order_inline::<2>() }
#[kani::proof] #[kani::unwind(6)] pub(crate) fn stream_order_inline_n3() { stream_order_inline::<3>() }

/// MergeOrderedHook (inline): the merged batch is an interleaving: taking the items marked `false`/`true` in `release_sources`
/// gives back the first/second input, each in its own order.
fn merge_ordered_inline<const N1: usize, const N2: usize>() { let mut d = HDriver; merge_ordered_inline_with::<N1, N2>(&mut d) }
/// the same contract under ONE scripted decision sequence (bit i of `bits` = the i-th take_second answer): the harnesses below enumerate
/// every sequence MergeOrderedHook can consume for inputs of <= 2 + 2 items, each in seconds (the havoc-driver versions need minutes)
fn merge_ordered_script<const N1: usize, const N2: usize>(bits: u8) {
    let mut d = ScriptDriver { bools: [bits & 1 != 0, bits & 2 != 0, bits & 4 != 0, bits & 8 != 0], bi: 0, idx: 0 };
    merge_ordered_inline_with::<N1, N2>(&mut d)
}
fn merge_ordered_inline_with<const N1: usize, const N2: usize>(d: &mut dyn DynDriver) {
    let a = items::<N1>();
    let b = items::<N2>();
    let first = Rc::new(RefCell::new(Some(vec_of(&a))));
    let second = Rc::new(RefCell::new(Some(vec_of(&b))));
    let (tx, rx) = unbounded::<Vec<u8>>();
    let mut h = MergeOrderedHook::new(first.clone(), second.clone(), tx, LOC, no_debug);
    kani::assert(h.pending_decision() && !h.has_decision(), "C36:inline_hook_pending_iff_input_present");
    h.autonomous_decision(&mut Borrowed(d));
    kani::assert(h.has_decision() && first.borrow().is_none() && second.borrow().is_none(), "C36:inline_decision_takes_the_input_batch");
    let batch: Vec<u8> = h.to_release.clone().unwrap();
    let src: Vec<bool> = h.release_sources.clone().unwrap();
    kani::assert(batch.len() == N1 + N2 && src.len() == N1 + N2, "C36:decision_conserves_item_count");
    let (mut i, mut ia, mut ib) = (0, 0, 0);
    while i < N1 + N2 {
        if src[i] { kani::assert(ib < N2 && batch[i] == b[ib], "C36:merge_keeps_each_input_in_order"); ib += 1; }
        else { kani::assert(ia < N1 && batch[i] == a[ia], "C36:merge_keeps_each_input_in_order"); ia += 1; }
        i += 1;
    }
    h.release_decision(None);
    kani::assert(rx.hvx_len() == 1 && rx.hvx_get(0) == batch, "C36:release_sends_exactly_the_decided_batch_in_order");
    kani::assert(!h.has_decision(), "C36:released_decision_is_consumed");
    std::mem::forget(h); std::mem::forget(rx); std::mem::forget(first); std::mem::forget(second);
}
#[kani::proof] #[kani::unwind(6)] pub(crate) fn merge_ordered_inline_0_2() { merge_ordered_inline::<0, 2>() }
#[kani::proof] #[kani::unwind(6)] pub(crate) fn slow_merge_ordered_inline_1_1() { merge_ordered_inline::<1, 1>() }
#[kani::proof] #[kani::unwind(6)] pub(crate) fn slow_merge_ordered_inline_2_1() { merge_ordered_inline::<2, 1>() }
#[kani::proof] #[kani::unwind(6)] pub(crate) fn slow_merge_ordered_inline_2_2() { merge_ordered_inline::<2, 2>() }

// ---------------------------------------------------------------------------------------------- TopLevelMergeOrderedHook
/// TopLevelMergeOrderedHook: releases at most one item, and it is the FRONT of one of the two ordered inputs (so each input is
/// consumed in order); the other input and the rest of the chosen one are untouched.
fn top_level_merge<const N1: usize, const N2: usize>() {
    let (a, b) = (items::<N1>(), items::<N2>());
    let (first, second) = (queue(&a), queue(&b));
    let (tx, rx) = unbounded::<u8>();
    let mut h = TopLevelMergeOrderedHook { first: first.clone(), second: second.clone(), to_release: None, release_source: None, output: tx,
                                           location: LOC, format_item_debug: no_debug };
    kani::assert(h.can_make_nontrivial_decision() == (N1 + N2 > 0), "C36:nontrivial_possible_iff_items_queued");
    let force: bool = kani::any();
    kani::assume(!force || N1 + N2 > 0);
    let mut d = HDriver;
    let r = h.autonomous_decision(&mut Borrowed(&mut d), force);
    let batch: Vec<u8> = h.to_release.clone().unwrap();
    {
        let (l, rq) = (first.borrow(), second.borrow());
        kani::assert(batch.len() <= 1 && batch.len() + l.len() + rq.len() == N1 + N2, "C36:decision_conserves_item_count");
        kani::assert(r == !batch.is_empty() && h.current_decision() == Some(r), "C36:result_reports_whether_something_is_released");
        kani::assert(!force || r, "C36:forced_decision_is_nontrivial");
        // whichever input lost an item lost its FRONT; everything else is where it was
        let dl = N1 - l.len();
        let dr = N2 - rq.len();
        kani::assert(dl + dr == batch.len(), "C36:decision_conserves_item_count");
        if dl == 1 { kani::assert(batch[0] == a[0], "C36:merge_keeps_each_input_in_order"); }
        if dr == 1 { kani::assert(batch[0] == b[0], "C36:merge_keeps_each_input_in_order"); }
        let mut i = 0;
        while i < l.len() { kani::assert(l[i] == a[i + dl], "C36:merge_keeps_each_input_in_order"); i += 1; }
        let mut i = 0;
        while i < rq.len() { kani::assert(rq[i] == b[i + dr], "C36:merge_keeps_each_input_in_order"); i += 1; }
    }
    h.release_decision(None);
    kani::assert(sent_exactly(&rx, &batch), "C36:release_sends_exactly_the_decided_batch_in_order");
    kani::assert(h.to_release.is_none() && h.current_decision().is_none(), "C36:released_decision_is_consumed");
    std::mem::forget(h); std::mem::forget(rx); std::mem::forget(first); std::mem::forget(second);
}
#[kani::proof] #[kani::unwind(5)] pub(crate) fn top_level_merge_0_0() { top_level_merge::<0, 0>() }
#[kani::proof] #[kani::unwind(5)] pub(crate) fn top_level_merge_0_2() { top_level_merge::<0, 2>() }
#[kani::proof] #[kani::unwind(5)] pub(crate) fn top_level_merge_2_0() { top_level_merge::<2, 0>() }
#[kani::proof] #[kani::unwind(5)] pub(crate) fn top_level_merge_2_2() { top_level_merge::<2, 2>() }

// ---------------------------------------------------------------------------------------------- keyed hooks, ONE key: MEASURED > 1500 s of CBMC, in NO tier (kept for the record)
/// KeyedStreamHook<_, _, TotalOrder> over a real FxHashMap with ONE key (hashbrown is within CBMC's reach only for a single entry,
/// DESIGN.md 14.4): the released batch is an in-order prefix of that key's queue, tagged with the key; nothing lost.
#[kani::proof] #[kani::unwind(6)]
pub(crate) fn deep_keyed_stream_total_order_one_key() {
    const N: usize = 2;
    let it = items::<N>();
    let key: u8 = 7;
    let mut q = VecDeque::new();
    let mut i = 0;
    while i < N { q.push_back(it[i]); i += 1; }
    let mut map: FxHashMap<u8, VecDeque<u8>> = FxHashMap::default();
    map.insert(key, q);
    let input = Rc::new(RefCell::new(map));
    let (tx, rx) = unbounded::<(u8, u8)>();
    fn no_debug_kv(_: &(u8, u8)) -> Option<String> { None }
    let mut h: KeyedStreamHook<u8, u8, TotalOrder> = KeyedStreamHook { input: input.clone(), to_release: None, output: tx, batch_location: LOC,
                                                                      format_item_debug: no_debug_kv, _order: std::marker::PhantomData };
    kani::assert(h.can_make_nontrivial_decision(), "C36:nontrivial_possible_iff_items_queued");
    let force: bool = kani::any();
    let mut d = HDriver;
    let r = h.autonomous_decision(&mut Borrowed(&mut d), force);
    let released: Vec<(u8, u8)> = h.to_release.clone().unwrap();
    {
        let m = input.borrow();
        let left = m.get(&key).unwrap();
        kani::assert(released.len() + left.len() == N, "C36:decision_conserves_item_count");
        let mut i = 0;
        while i < N {
            let got = if i < released.len() { released[i] } else { (key, left[i - released.len()]) };
            kani::assert(got == (key, it[i]), "C36:total_order_releases_a_prefix_in_order");
            i += 1;
        }
    }
    kani::assert(r == !released.is_empty() && h.current_decision() == Some(r), "C36:result_reports_whether_something_is_released");
    kani::assert(!force || r, "C36:forced_decision_is_nontrivial");
    std::mem::forget(h); std::mem::forget(rx); std::mem::forget(input);
}

// ---------------------------------------------------------------------------------------------- TopLevelFoldHook, two items, ENUMERATED decisions
/// With a havoc driver the two-item fold harness is out of CBMC's reach (> 20 min).  Here the driver is SCRIPTED: each harness replays
/// one concrete decision sequence (two include/exclude answers, one Fisher-Yates index); the 8 harnesses enumerate every sequence the
/// hook can consume for a queue of two items, which is the property's own quantifier.  Items stay symbolic.
struct ScriptDriver { bools: [bool; 4], bi: usize, idx: usize }
impl DynDriver for ScriptDriver {
    fn depth(&self) -> usize { 0 }
    fn set_depth(&mut self, _depth: usize) {}
    fn max_depth(&self) -> usize { usize::MAX }
    fn gen_variant(&mut self, variants: usize, _base_case: usize) -> Option<usize> { Some(if self.idx < variants { self.idx } else { 0 }) }
    fn gen_usize(&mut self, min: std::ops::Bound<&usize>, max: std::ops::Bound<&usize>) -> Option<usize> {
        use std::ops::Bound::*;
        let lo = match min { Included(m) => *m, Excluded(m) => *m + 1, Unbounded => 0 };
        let hi = match max { Included(m) => *m, Excluded(m) => *m - 1, Unbounded => usize::MAX };
        Some(if self.idx < lo { lo } else if self.idx > hi { hi } else { self.idx })
    }
    fn gen_bool(&mut self, _probability: Option<f32>) -> Option<bool> {
        let b = if self.bi < 4 { self.bools[self.bi] } else { false };
        self.bi += 1;
        Some(b)
    }
    fn gen_u8(&mut self, _: std::ops::Bound<&u8>, _: std::ops::Bound<&u8>) -> Option<u8> { unreachable!() }
    fn gen_i8(&mut self, _: std::ops::Bound<&i8>, _: std::ops::Bound<&i8>) -> Option<i8> { unreachable!() }
    fn gen_u16(&mut self, _: std::ops::Bound<&u16>, _: std::ops::Bound<&u16>) -> Option<u16> { unreachable!() }
    fn gen_i16(&mut self, _: std::ops::Bound<&i16>, _: std::ops::Bound<&i16>) -> Option<i16> { unreachable!() }
    fn gen_u32(&mut self, _: std::ops::Bound<&u32>, _: std::ops::Bound<&u32>) -> Option<u32> { unreachable!() }
    fn gen_i32(&mut self, _: std::ops::Bound<&i32>, _: std::ops::Bound<&i32>) -> Option<i32> { unreachable!() }
    fn gen_u64(&mut self, _: std::ops::Bound<&u64>, _: std::ops::Bound<&u64>) -> Option<u64> { unreachable!() }
    fn gen_i64(&mut self, _: std::ops::Bound<&i64>, _: std::ops::Bound<&i64>) -> Option<i64> { unreachable!() }
    fn gen_u128(&mut self, _: std::ops::Bound<&u128>, _: std::ops::Bound<&u128>) -> Option<u128> { unreachable!() }
    fn gen_i128(&mut self, _: std::ops::Bound<&i128>, _: std::ops::Bound<&i128>) -> Option<i128> { unreachable!() }
    fn gen_isize(&mut self, _: std::ops::Bound<&isize>, _: std::ops::Bound<&isize>) -> Option<isize> { unreachable!() }
    fn gen_f32(&mut self, _: std::ops::Bound<&f32>, _: std::ops::Bound<&f32>) -> Option<f32> { unreachable!() }
    fn gen_f64(&mut self, _: std::ops::Bound<&f64>, _: std::ops::Bound<&f64>) -> Option<f64> { unreachable!() }
    fn gen_char(&mut self, _: std::ops::Bound<&char>, _: std::ops::Bound<&char>) -> Option<char> { unreachable!() }
    fn gen_from_bytes(&mut self, _hint: &mut dyn FnMut() -> (usize, Option<usize>), _produce: &mut dyn FnMut(&[u8]) -> Option<usize>) -> Option<()> { unreachable!() }
}
fn fold2_script(b0: bool, b1: bool, idx: usize) {
    const N: usize = 2;
    let it = items::<N>();
    let input = queue(&it);
    let (tx, rx) = unbounded::<Vec<u8>>();
    let mut h = TopLevelFoldHook { input: input.clone(), to_release: None, output: tx, location: LOC, format_item_debug: no_debug };
    let mut d = ScriptDriver { bools: [b0, b1, false, false], bi: 0, idx };
    let r = h.autonomous_decision(&mut Borrowed(&mut d), kani::any());
    {
        let released = h.to_release.as_ref().unwrap();
        let left = input.borrow();
        kani::assert(released.len() + left.len() == N, "C36:decision_conserves_item_count");
        let got = concat::<N>(released, &left);
        kani::assert(same_multiset(&got, &it, N), "C36:no_order_releases_a_sub_multiset_and_keeps_the_rest");
        kani::assert(r && !released.is_empty(), "C36:fold_hook_releases_something_whenever_anything_is_queued");
    }
    std::mem::forget(h); std::mem::forget(rx); std::mem::forget(input);
}
#[kani::proof] #[kani::unwind(5)] pub(crate) fn top_level_fold2_script_ff0() { fold2_script(false, false, 0) }
#[kani::proof] #[kani::unwind(5)] pub(crate) fn top_level_fold2_script_ff1() { fold2_script(false, false, 1) }
#[kani::proof] #[kani::unwind(5)] pub(crate) fn top_level_fold2_script_ft0() { fold2_script(false, true, 0) }
#[kani::proof] #[kani::unwind(5)] pub(crate) fn top_level_fold2_script_ft1() { fold2_script(false, true, 1) }
#[kani::proof] #[kani::unwind(5)] pub(crate) fn top_level_fold2_script_tf0() { fold2_script(true, false, 0) }
#[kani::proof] #[kani::unwind(5)] pub(crate) fn top_level_fold2_script_tf1() { fold2_script(true, false, 1) }
#[kani::proof] #[kani::unwind(5)] pub(crate) fn top_level_fold2_script_tt0() { fold2_script(true, true, 0) }
#[kani::proof] #[kani::unwind(5)] pub(crate) fn top_level_fold2_script_tt1() { fold2_script(true, true, 1) }

// enumerated decision scripts for MergeOrderedHook (quick tier)
#[kani::proof] #[kani::unwind(6)] pub(crate) fn merge_ordered_script_1_1_b0() { merge_ordered_script::<1, 1>(0) }
#[kani::proof] #[kani::unwind(6)] pub(crate) fn merge_ordered_script_1_1_b1() { merge_ordered_script::<1, 1>(1) }
#[kani::proof] #[kani::unwind(6)] pub(crate) fn merge_ordered_script_2_1_b0() { merge_ordered_script::<2, 1>(0) }
#[kani::proof] #[kani::unwind(6)] pub(crate) fn merge_ordered_script_2_1_b1() { merge_ordered_script::<2, 1>(1) }
#[kani::proof] #[kani::unwind(6)] pub(crate) fn merge_ordered_script_2_1_b2() { merge_ordered_script::<2, 1>(2) }
#[kani::proof] #[kani::unwind(6)] pub(crate) fn merge_ordered_script_2_1_b3() { merge_ordered_script::<2, 1>(3) }
#[kani::proof] #[kani::unwind(6)] pub(crate) fn merge_ordered_script_1_2_b0() { merge_ordered_script::<1, 2>(0) }
#[kani::proof] #[kani::unwind(6)] pub(crate) fn merge_ordered_script_1_2_b1() { merge_ordered_script::<1, 2>(1) }
#[kani::proof] #[kani::unwind(6)] pub(crate) fn merge_ordered_script_1_2_b2() { merge_ordered_script::<1, 2>(2) }
#[kani::proof] #[kani::unwind(6)] pub(crate) fn merge_ordered_script_1_2_b3() { merge_ordered_script::<1, 2>(3) }
#[kani::proof] #[kani::unwind(6)] pub(crate) fn merge_ordered_script_2_2_b0() { merge_ordered_script::<2, 2>(0) }
#[kani::proof] #[kani::unwind(6)] pub(crate) fn merge_ordered_script_2_2_b1() { merge_ordered_script::<2, 2>(1) }
#[kani::proof] #[kani::unwind(6)] pub(crate) fn merge_ordered_script_2_2_b2() { merge_ordered_script::<2, 2>(2) }
#[kani::proof] #[kani::unwind(6)] pub(crate) fn merge_ordered_script_2_2_b3() { merge_ordered_script::<2, 2>(3) }
#[kani::proof] #[kani::unwind(6)] pub(crate) fn merge_ordered_script_2_2_b4() { merge_ordered_script::<2, 2>(4) }
#[kani::proof] #[kani::unwind(6)] pub(crate) fn merge_ordered_script_2_2_b5() { merge_ordered_script::<2, 2>(5) }
#[kani::proof] #[kani::unwind(6)] pub(crate) fn merge_ordered_script_2_2_b6() { merge_ordered_script::<2, 2>(6) }
#[kani::proof] #[kani::unwind(6)] pub(crate) fn merge_ordered_script_2_2_b7() { merge_ordered_script::<2, 2>(7) }

// ---------------------------------------------------------------------------------------------- keyed hooks, ENUMERATED decisions: MEASURED > 600 s each even with a scripted driver and even over a
// contract double of FxHashMap (tried and reverted): the cost is in the hook's own Vec<(K, VecDeque)> / drain / collect / extend code, not in the table.  In NO tier.
/// KeyedStreamHook<_, _, TotalOrder> with two keys (queues of 2 and 1 symbolic items) over the FxHashMap contract double: for each key the
/// released items are an in-order prefix of that key's queue, tagged with the key; other keys' items are untouched; nothing is lost.
/// The driver is scripted: `c0`, `c1` are the counts it answers for the two keys (clamped into the requested range), so the
/// instantiations enumerate every decision the hook can take for these queues.
struct CountScript { counts: [usize; 2], i: usize }
impl DynDriver for CountScript {
    fn depth(&self) -> usize { 0 }
    fn set_depth(&mut self, _depth: usize) {}
    fn max_depth(&self) -> usize { usize::MAX }
    fn gen_variant(&mut self, _variants: usize, _base_case: usize) -> Option<usize> { Some(0) }
    fn gen_usize(&mut self, min: std::ops::Bound<&usize>, max: std::ops::Bound<&usize>) -> Option<usize> {
        use std::ops::Bound::*;
        let lo = match min { Included(m) => *m, Excluded(m) => *m + 1, Unbounded => 0 };
        let hi = match max { Included(m) => *m, Excluded(m) => *m - 1, Unbounded => usize::MAX };
        let want = if self.i < 2 { self.counts[self.i] } else { 0 };
        self.i += 1;
        Some(if want < lo { lo } else if want > hi { hi } else { want })
    }
    fn gen_bool(&mut self, _probability: Option<f32>) -> Option<bool> { Some(false) }
    fn gen_u8(&mut self, _: std::ops::Bound<&u8>, _: std::ops::Bound<&u8>) -> Option<u8> { unreachable!() }
    fn gen_i8(&mut self, _: std::ops::Bound<&i8>, _: std::ops::Bound<&i8>) -> Option<i8> { unreachable!() }
    fn gen_u16(&mut self, _: std::ops::Bound<&u16>, _: std::ops::Bound<&u16>) -> Option<u16> { unreachable!() }
    fn gen_i16(&mut self, _: std::ops::Bound<&i16>, _: std::ops::Bound<&i16>) -> Option<i16> { unreachable!() }
    fn gen_u32(&mut self, _: std::ops::Bound<&u32>, _: std::ops::Bound<&u32>) -> Option<u32> { unreachable!() }
    fn gen_i32(&mut self, _: std::ops::Bound<&i32>, _: std::ops::Bound<&i32>) -> Option<i32> { unreachable!() }
    fn gen_u64(&mut self, _: std::ops::Bound<&u64>, _: std::ops::Bound<&u64>) -> Option<u64> { unreachable!() }
    fn gen_i64(&mut self, _: std::ops::Bound<&i64>, _: std::ops::Bound<&i64>) -> Option<i64> { unreachable!() }
    fn gen_u128(&mut self, _: std::ops::Bound<&u128>, _: std::ops::Bound<&u128>) -> Option<u128> { unreachable!() }
    fn gen_i128(&mut self, _: std::ops::Bound<&i128>, _: std::ops::Bound<&i128>) -> Option<i128> { unreachable!() }
    fn gen_isize(&mut self, _: std::ops::Bound<&isize>, _: std::ops::Bound<&isize>) -> Option<isize> { unreachable!() }
    fn gen_f32(&mut self, _: std::ops::Bound<&f32>, _: std::ops::Bound<&f32>) -> Option<f32> { unreachable!() }
    fn gen_f64(&mut self, _: std::ops::Bound<&f64>, _: std::ops::Bound<&f64>) -> Option<f64> { unreachable!() }
    fn gen_char(&mut self, _: std::ops::Bound<&char>, _: std::ops::Bound<&char>) -> Option<char> { unreachable!() }
    fn gen_from_bytes(&mut self, _hint: &mut dyn FnMut() -> (usize, Option<usize>), _produce: &mut dyn FnMut(&[u8]) -> Option<usize>) -> Option<()> { unreachable!() }
}
fn keyed_total_order_script(c0: usize, c1: usize, force: bool) {
    let (a, b) = (items::<2>(), items::<1>());
    let mut map: FxHashMap<u8, VecDeque<u8>> = FxHashMap::default();
    let mut qa = VecDeque::new(); qa.push_back(a[0]); qa.push_back(a[1]);
    let mut qb = VecDeque::new(); qb.push_back(b[0]);
    map.insert(7, qa);
    map.insert(9, qb);
    let input = Rc::new(RefCell::new(map));
    let (tx, rx) = unbounded::<(u8, u8)>();
    fn no_debug_kv(_: &(u8, u8)) -> Option<String> { None }
    let mut h: KeyedStreamHook<u8, u8, TotalOrder> = KeyedStreamHook { input: input.clone(), to_release: None, output: tx, batch_location: LOC,
                                                                      format_item_debug: no_debug_kv, _order: std::marker::PhantomData };
    kani::assert(h.can_make_nontrivial_decision(), "C36:nontrivial_possible_iff_items_queued");
    let mut d = CountScript { counts: [c0, c1], i: 0 };
    let r = h.autonomous_decision(&mut Borrowed(&mut d), force);
    let released: Vec<(u8, u8)> = h.to_release.clone().unwrap();
    {
        let m = input.borrow();
        let (la, lb) = (m.get(&7).unwrap(), m.get(&9).unwrap());
        // per key: released items of the key, in release order, followed by what is left == the key's original queue
        let mut ia = 0; let mut ib = 0; let mut i = 0;
        while i < released.len() {
            let (k, v) = released[i];
            if k == 7 { kani::assert(ia < 2 && v == a[ia], "C36:keyed_total_order_releases_a_prefix_per_key"); ia += 1; }
            else { kani::assert(k == 9 && ib < 1 && v == b[ib], "C36:keyed_total_order_releases_a_prefix_per_key"); ib += 1; }
            i += 1;
        }
        kani::assert(ia + la.len() == 2 && ib + lb.len() == 1, "C36:decision_conserves_item_count");
        let mut j = 0;
        while j < la.len() { kani::assert(la[j] == a[ia + j], "C36:keyed_total_order_releases_a_prefix_per_key"); j += 1; }
        if lb.len() == 1 { kani::assert(lb[0] == b[0], "C36:keyed_total_order_releases_a_prefix_per_key"); }
    }
    kani::assert(r == !released.is_empty() && h.current_decision() == Some(r), "C36:result_reports_whether_something_is_released");
    kani::assert(!force || r, "C36:forced_decision_is_nontrivial");
    h.release_decision(None);
    kani::assert(rx.hvx_len() == released.len(), "C36:release_sends_exactly_the_decided_batch_in_order");
    let mut i = 0;
    while i < released.len() { kani::assert(rx.hvx_get(i) == released[i], "C36:release_sends_exactly_the_decided_batch_in_order"); i += 1; }
    std::mem::forget(h); std::mem::forget(rx); std::mem::forget(input);
}
#[kani::proof] #[kani::unwind(6)] pub(crate) fn deep_keyed_total_order_script_0_0() { keyed_total_order_script(0, 0, false) }
#[kani::proof] #[kani::unwind(6)] pub(crate) fn deep_keyed_total_order_script_0_0_forced() { keyed_total_order_script(0, 0, true) }
#[kani::proof] #[kani::unwind(6)] pub(crate) fn deep_keyed_total_order_script_1_0() { keyed_total_order_script(1, 0, false) }
#[kani::proof] #[kani::unwind(6)] pub(crate) fn deep_keyed_total_order_script_2_1() { keyed_total_order_script(2, 1, false) }
#[kani::proof] #[kani::unwind(6)] pub(crate) fn deep_keyed_total_order_script_0_1() { keyed_total_order_script(0, 1, kani::any()) }
#[kani::proof] #[kani::unwind(6)] pub(crate) fn deep_keyed_total_order_script_1_1() { keyed_total_order_script(1, 1, kani::any()) }
#[kani::proof] #[kani::unwind(6)] pub(crate) fn deep_keyed_total_order_script_2_0() { keyed_total_order_script(2, 0, kani::any()) }
