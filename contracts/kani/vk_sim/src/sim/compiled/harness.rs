//! C36: `run_hooks` (extracted verbatim from compiled.rs) against the `SimHook` contract, with havoc hooks.
//! A havoc hook answers `current_decision / can_make_nontrivial_decision` from symbolic state, makes any decision its own
//! contract allows (forced => non-trivial; non-trivial => it could), and asserts the caller's obligations on itself:
//! decided at most once, forced only when it can decide non-trivially, released exactly once and only after a decision.
use super::super::runtime::SimHook;
use super::run_hooks;
use bolero::generator::bolero_generator::driver::object::Borrowed;

#[derive(Clone, Copy)]
struct St { decision: Option<bool>, can: bool, decided: u8, released: u8, released_nontrivial: bool }
static mut ST: [St; 3] = [St { decision: None, can: false, decided: 0, released: 0, released_nontrivial: false }; 3];

struct HHook(usize);
impl SimHook for HHook {
    fn current_decision(&self) -> Option<bool> { unsafe { ST[self.0].decision } }
    fn can_make_nontrivial_decision(&self) -> bool { unsafe { ST[self.0].can } }
    fn autonomous_decision<'a>(&mut self, _driver: &mut Borrowed<'a>, force_nontrivial: bool) -> bool {
        unsafe {
            kani::assert(ST[self.0].decision.is_none(), "C36:run_hooks_decides_each_undecided_hook_once");
            kani::assert(!force_nontrivial || ST[self.0].can, "C36:run_hooks_forces_only_hooks_that_can_decide_nontrivially");
            let r: bool = kani::any();
            kani::assume(!force_nontrivial || r);
            kani::assume(!r || ST[self.0].can);
            ST[self.0].decision = Some(r);
            ST[self.0].decided += 1;
            r
        }
    }
    fn release_decision(&mut self, _log_writer: Option<&mut dyn std::fmt::Write>) {
        unsafe {
            kani::assert(ST[self.0].decision.is_some(), "C36:run_hooks_releases_only_decided_hooks");
            ST[self.0].released_nontrivial = ST[self.0].decision.unwrap();
            ST[self.0].decision = None;
            ST[self.0].released += 1;
        }
    }
}

fn run_hooks_n<const N: usize>() {
    let mut could_release = false;
    let mut manual_trivial = false;
    let mut i = 0;
    while i < N {
        let decision: Option<bool> = kani::any(); // a manual decision may already be present
        let can: bool = kani::any();
        unsafe { ST[i] = St { decision, can, decided: 0, released: 0, released_nontrivial: false }; }
        could_release |= decision.unwrap_or(false) || can; // hook_can_release
        manual_trivial |= decision == Some(false);
        i += 1;
    }
    let mut hooks: Vec<Box<dyn SimHook>> = Vec::new();
    let mut i = 0;
    while i < N { hooks.push(Box::new(HHook(i))); i += 1; }
    run_hooks::<String>(None, &mut hooks);
    let mut any_nontrivial = false;
    let mut i = 0;
    while i < N {
        let s = unsafe { ST[i] };
        kani::assert(s.released == 1, "C36:run_hooks_releases_every_hook_exactly_once");
        kani::assert(s.decision.is_none(), "C36:released_decision_is_consumed");
        any_nontrivial |= s.released_nontrivial;
        i += 1;
    }
    // SimTick::can_run / SimObservation::can_run schedule only when some hook can release.  Pre-existing ("manual") decisions
    // do not occur in this tree: every assignment to `to_release` is inside an `autonomous_decision`, hooks are built with
    // `to_release: None`, and run_hooks consumes every decision before it returns (asserted above) -- so they stay symbolic
    // for the safety clauses, and the liveness clause excludes only a manual TRIVIAL decision (which would legitimately
    // release nothing although items are queued).
    kani::assert(manual_trivial || !could_release || any_nontrivial, "C36:every_scheduled_tick_releases_something_new");
    std::mem::forget(hooks);
}
#[kani::proof] #[kani::unwind(5)] pub(crate) fn run_hooks_n0() { run_hooks_n::<0>() }
#[kani::proof] #[kani::unwind(5)] pub(crate) fn run_hooks_n1() { run_hooks_n::<1>() }
#[kani::proof] #[kani::unwind(5)] pub(crate) fn run_hooks_n2() { run_hooks_n::<2>() }
#[kani::proof] #[kani::unwind(5)] pub(crate) fn run_hooks_n3() { run_hooks_n::<3>() }
