//! C36 (partial): hydro_lang/src/sim/runtime.rs, the whole file extracted verbatim by hvx on every run (src/sim/runtime.rs is
//! generated).  Its imports are satisfied by shims that re-export the real bolero-generator, the real unsync mpsc file and
//! marker types for the stream orderings (see shims/ and live_collections below).
#![allow(dead_code, unused_imports, unused_macros, clippy::all)]
pub mod live_collections {
    pub mod stream {
        //! SHIM: the ordering markers of hydro_lang::live_collections::stream (type-level tags only)
        pub trait Ordering {}
        pub enum TotalOrder {}
        pub enum NoOrder {}
        impl Ordering for TotalOrder {}
        impl Ordering for NoOrder {}
    }
}
pub mod sim { pub mod runtime; pub mod compiled; }
