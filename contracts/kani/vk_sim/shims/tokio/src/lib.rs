//! SHIM for `tokio`: only the two error types the unsync mpsc re-exports (plain data types; Debug without a `T: Debug`
//! bound, as in tokio).
pub mod sync { pub mod mpsc { pub mod error {
    use core::fmt;
    #[derive(PartialEq, Eq, Clone, Copy)]
    pub struct SendError<T>(pub T);
    impl<T> fmt::Debug for SendError<T> { fn fmt(&self, f: &mut fmt::Formatter<'_>) -> fmt::Result { f.write_str("SendError") } }
    #[derive(PartialEq, Eq, Clone, Copy)]
    pub enum TrySendError<T> { Full(T), Closed(T) }
    impl<T> fmt::Debug for TrySendError<T> {
        fn fmt(&self, f: &mut fmt::Formatter<'_>) -> fmt::Result { f.write_str(match self { TrySendError::Full(_) => "Full(..)", TrySendError::Closed(_) => "Closed(..)" }) }
    }
} } }
