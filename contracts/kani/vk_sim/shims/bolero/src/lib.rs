//! SHIM for `bolero` (bolero-hydro): re-exports exactly the paths hydro_lang/src/sim/{runtime,compiled}.rs import, straight from
//! the real `bolero-generator-hydro` crate (the engine/fuzzer parts of bolero are irrelevant to the hooks and hostile to Kani).
//! One override: under `cfg(kani)` bolero-generator's `any::scope` is a different, private API (a global kani driver, no
//! `Borrowed`), so `any::scope::borrow_with` is provided here with the NON-kani signature and hands out a havoc `DynDriver`:
//! every `gen_*` answers any value within the requested range, i.e. every decision sequence.
pub mod generator {
    pub mod bolero_generator {
        pub use ::bolero_generator::*;
        pub mod any {
            pub mod scope {
                use ::bolero_generator::driver::object::{Borrowed, DynDriver};
                pub fn borrow_with<F: FnOnce(&mut Borrowed) -> R, R>(f: F) -> R {
                    let mut d = crate::HDriver;
                    let dd: &mut dyn DynDriver = &mut d;
                    f(&mut Borrowed(dd))
                }
            }
        }
    }
}
pub use ::bolero_generator::{produce, ValueGenerator};

use core::ops::Bound;
use ::bolero_generator::driver::object::DynDriver;

/// Havoc driver: any answer within the requested range.
pub struct HDriver;
fn within(v: usize, min: Bound<&usize>, max: Bound<&usize>) -> bool {
    (match min { Bound::Included(m) => v >= *m, Bound::Excluded(m) => v > *m, Bound::Unbounded => true })
        && (match max { Bound::Included(m) => v <= *m, Bound::Excluded(m) => v < *m, Bound::Unbounded => true })
}
impl DynDriver for HDriver {
    fn depth(&self) -> usize { 0 }
    fn set_depth(&mut self, _depth: usize) {}
    fn max_depth(&self) -> usize { usize::MAX }
    fn gen_variant(&mut self, variants: usize, _base_case: usize) -> Option<usize> { let v: usize = kani::any(); kani::assume(v < variants); Some(v) }
    fn gen_usize(&mut self, min: Bound<&usize>, max: Bound<&usize>) -> Option<usize> {
        let v: usize = kani::any();
        kani::assume(within(v, min, max));
        Some(v)
    }
    fn gen_bool(&mut self, _probability: Option<f32>) -> Option<bool> { Some(kani::any()) }
    fn gen_u8(&mut self, _: Bound<&u8>, _: Bound<&u8>) -> Option<u8> { unreachable!() }
    fn gen_i8(&mut self, _: Bound<&i8>, _: Bound<&i8>) -> Option<i8> { unreachable!() }
    fn gen_u16(&mut self, _: Bound<&u16>, _: Bound<&u16>) -> Option<u16> { unreachable!() }
    fn gen_i16(&mut self, _: Bound<&i16>, _: Bound<&i16>) -> Option<i16> { unreachable!() }
    fn gen_u32(&mut self, _: Bound<&u32>, _: Bound<&u32>) -> Option<u32> { unreachable!() }
    fn gen_i32(&mut self, _: Bound<&i32>, _: Bound<&i32>) -> Option<i32> { unreachable!() }
    fn gen_u64(&mut self, _: Bound<&u64>, _: Bound<&u64>) -> Option<u64> { unreachable!() }
    fn gen_i64(&mut self, _: Bound<&i64>, _: Bound<&i64>) -> Option<i64> { unreachable!() }
    fn gen_u128(&mut self, _: Bound<&u128>, _: Bound<&u128>) -> Option<u128> { unreachable!() }
    fn gen_i128(&mut self, _: Bound<&i128>, _: Bound<&i128>) -> Option<i128> { unreachable!() }
    fn gen_isize(&mut self, _: Bound<&isize>, _: Bound<&isize>) -> Option<isize> { unreachable!() }
    fn gen_f32(&mut self, _: Bound<&f32>, _: Bound<&f32>) -> Option<f32> { unreachable!() }
    fn gen_f64(&mut self, _: Bound<&f64>, _: Bound<&f64>) -> Option<f64> { unreachable!() }
    fn gen_char(&mut self, _: Bound<&char>, _: Bound<&char>) -> Option<char> { unreachable!() }
    fn gen_from_bytes(&mut self, _hint: &mut dyn FnMut() -> (usize, Option<usize>), _produce: &mut dyn FnMut(&[u8]) -> Option<usize>) -> Option<()> { unreachable!() }
}
