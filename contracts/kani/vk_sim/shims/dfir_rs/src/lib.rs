//! SHIM for `dfir_rs`: only the two paths runtime.rs imports.  `rustc_hash` is the real crate; `util::unsync::mpsc` is a
//! CONTRACT DOUBLE of the channel (see the module's header: the real file is outside CBMC's reach, C16).
pub use rustc_hash;
pub mod util { pub mod unsync { pub mod mpsc; } }
