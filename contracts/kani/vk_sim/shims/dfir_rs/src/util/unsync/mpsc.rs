//! CONTRACT DOUBLE (not the real file) for `dfir_rs::util::unsync::mpsc`, as seen by the simulator hooks: they only call
//! `Sender::try_send(item).unwrap()` on an unbounded channel whose receiver is alive.  The real channel is outside CBMC's reach
//! (DESIGN.md section 11, C16: one real `try_send` drives CBMC past 35 GB), so the hooks are verified against its CONTRACT:
//! `try_send` on an open unbounded channel appends the item at the back of the queue and returns `Ok(())`.
//! That contract is TRUSTED here (it is what C16 would establish); it is listed in the evidence's trusted base.
use std::cell::RefCell;
use std::collections::VecDeque;
use std::rc::Rc;

pub use tokio::sync::mpsc::error::{SendError, TrySendError};

pub struct Sender<T> { q: Rc<RefCell<VecDeque<T>>> }
pub struct Receiver<T> { q: Rc<RefCell<VecDeque<T>>> }
impl<T> Sender<T> {
    pub fn try_send(&self, item: T) -> Result<(), TrySendError<T>> { self.q.borrow_mut().push_back(item); Ok(()) }
}
pub fn unbounded<T>() -> (Sender<T>, Receiver<T>) {
    let q = Rc::new(RefCell::new(VecDeque::new()));
    (Sender { q: q.clone() }, Receiver { q })
}
/// harness-side observers of the queue
impl<T: Clone> Receiver<T> {
    pub fn hvx_len(&self) -> usize { self.q.borrow().len() }
    pub fn hvx_get(&self, i: usize) -> T { self.q.borrow()[i].clone() }
}
