#!/bin/bash
# Offline warm-up: macro expansion cache + Kani harness crate builds.  Never fails the setup:
# every check rebuilds what it needs from /repo anyway.
cd "$(dirname "$0")"
export CARGO_NET_OFFLINE=true
mkdir -p build evidence replays
python3 - <<'PY' || true
import sys
sys.path.insert(0, 'hvx')
import gen
try:
    gen.expanded_crate('lattices')
    print('expanded lattices cached')
except Exception as e:
    print('expand warm-up failed (checks will retry):', e)
PY
python3 - <<'PY' || true
import sys, os
sys.path.insert(0, 'hvx')
import kani_unit, registry, verus_unit
for name, u in registry.KANI_UNITS.items():
    try:
        if u['mode'] == 'dep':
            dst = os.path.join('build', 'kani', name)
            kani_unit._sync_crate(u['crate'], dst)
            for tin, tout in u.get('gen', []):
                verus_unit.generate(os.path.join(dst, tin), os.path.join(dst, tout))
            r = kani_unit.run_kani(dst, ['hvx_warmup_no_such_harness'], jobs=2, timeout=1500)
            print('warm', name, round(r['wall_s'], 1), 's')
    except Exception as e:
        print('warm-up of', name, 'failed (checks will retry):', e)
PY
exit 0
