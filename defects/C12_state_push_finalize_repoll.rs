//! Native demonstration: push::StatePush emits its state again on every re-poll of poll_finalize (SendPush re-polls
//! poll_finalize while it is Pending), and does so without a new poll_ready of the state downstream.
use core::pin::Pin;

use dfir_pipes::Yes;
use dfir_pipes::push::{Push, PushStep, state_push};
use lattices::Max;

/// Downstream whose poll_finalize answers Pending `pend` times; records what it receives.
struct Rec<T> { pend: usize, got: Vec<T> }
impl<T> Push<T, ()> for Rec<T> {
    type Ctx<'ctx> = ();
    type CanPend = Yes;
    fn poll_ready(self: Pin<&mut Self>, _ctx: &mut ()) -> PushStep<Yes> { PushStep::Done }
    fn start_send(self: Pin<&mut Self>, item: T, _meta: ()) { self.get_mut().got.push(item); }
    fn poll_finalize(self: Pin<&mut Self>, _ctx: &mut ()) -> PushStep<Yes> {
        let me = self.get_mut();
        if me.pend > 0 { me.pend -= 1; PushStep::Pending(Yes) } else { PushStep::Done }
    }
    fn size_hint(self: Pin<&mut Self>, _hint: (usize, Option<usize>)) {}
}
impl<T> Unpin for Rec<T> {}

fn states_emitted(items_pend: usize) -> Vec<u32> {
    let mut items = Rec::<u32> { pend: items_pend, got: vec![] };
    let mut states = Rec::<Max<u32>> { pend: 0, got: vec![] };
    let mut lat = Max::new(0u32);
    {
        let mut p = core::pin::pin!(state_push::<u32, _, _, _, _, Max<u32>>(&mut items, &mut states, Max::new, &mut lat));
        assert!(p.as_mut().poll_ready(&mut ()).is_done());
        p.as_mut().start_send(5, ());
        let mut polls = 0;
        while !p.as_mut().poll_finalize(&mut ()).is_done() {
            polls += 1;
            assert!(polls <= items_pend);
        }
    }
    assert_eq!(items.got, vec![5]);
    states.got.into_iter().map(|m| m.into_reveal()).collect()
}

#[test]
fn state_is_emitted_once_when_nothing_pends() {
    assert_eq!(states_emitted(0), vec![5]);
}

#[test]
fn state_is_emitted_once_when_the_items_downstream_pends_during_finalize() {
    assert_eq!(states_emitted(2), vec![5], "the state was emitted again on every re-poll of poll_finalize");
}
