//! Native demonstration: push::FilterMapAsync loses an already resolved item when the downstream is pending on two
//! consecutive poll_ready calls.
use core::pin::Pin;
use core::task::{Context, Waker};

use dfir_pipes::Yes;
use dfir_pipes::push::{Push, PushStep, filter_map_async};

/// Downstream that answers Pending `pend` times, then is ready; records what it receives.
struct SlowPush { pend: usize, got: Vec<i32>, ready: bool }
impl Push<i32, ()> for SlowPush {
    type Ctx<'ctx> = ();
    type CanPend = Yes;
    fn poll_ready(self: Pin<&mut Self>, _ctx: &mut ()) -> PushStep<Yes> {
        let me = self.get_mut();
        if me.pend > 0 { me.pend -= 1; me.ready = false; PushStep::Pending(Yes) } else { me.ready = true; PushStep::Done }
    }
    fn start_send(self: Pin<&mut Self>, item: i32, _meta: ()) {
        let me = self.get_mut();
        assert!(me.ready, "start_send without a successful poll_ready");
        me.ready = false;
        me.got.push(item);
    }
    fn poll_finalize(self: Pin<&mut Self>, _ctx: &mut ()) -> PushStep<Yes> { PushStep::Done }
    fn size_hint(self: Pin<&mut Self>, _hint: (usize, Option<usize>)) {}
}

fn deliver_through(pend: usize) -> Vec<i32> {
    let waker = Waker::noop();
    let mut cx = Context::from_waker(waker);
    let mut down = SlowPush { pend, got: vec![], ready: false };
    {
        let mut p = core::pin::pin!(filter_map_async(|x: i32| async move { Some(x * 10) }, &mut down));
        Push::<i32, ()>::start_send(p.as_mut(), 7, ());
        // poll until ready (at most pend + 1 polls are needed: the future resolves on the first poll)
        let mut polls = 0;
        while !Push::<i32, ()>::poll_ready(p.as_mut(), &mut cx).is_done() {
            polls += 1;
            assert!(polls <= pend + 1);
        }
    }
    down.got
}

#[test]
fn resolved_item_survives_one_pending_poll() {
    assert_eq!(deliver_through(1), vec![70]);
}

#[test]
fn resolved_item_survives_two_pending_polls() {
    assert_eq!(deliver_through(2), vec![70], "the resolved item was lost while the downstream was pending");
}
