"""Run one Verus unit: generate from template (hvx gen), verify, parse per-function results and
failed clauses, run canary mutants.  Returns a dict; never raises on verification failure."""
from __future__ import annotations

import json
import os
import re
import subprocess
import sys
import time
from typing import Dict, List, Optional

HERE = os.path.dirname(os.path.abspath(__file__))
VERIF = os.path.dirname(HERE)
sys.path.insert(0, HERE)
import gen as hvxgen  # noqa: E402

VERUS = os.environ.get("VERUS_BIN", "verus")
TRUST_PAT = re.compile(r"assume_specification|external_body|external_trait_specification|\buninterp\b|\badmit\(|\bassume\(|\baxiom\b|external_type_specification|/\*TRUSTED[^*]*\*/")


def run_verus(path: str, timeout: int = 600) -> dict:
    t0 = time.time()
    try:
        r = subprocess.run([VERUS, "--edition", "2024", path, "--output-json", "--time", "--multiple-errors", "50"],
                           capture_output=True, text=True, timeout=timeout)
    except subprocess.TimeoutExpired:
        return {"status": "timeout", "wall_s": time.time() - t0, "stderr": "timeout", "functions": [], "errors": []}
    wall = time.time() - t0
    out = {"wall_s": wall, "stderr": r.stderr, "returncode": r.returncode, "functions": [], "errors": []}
    try:
        js = json.loads(r.stdout)
    except Exception:
        out["status"] = "tool-error"
        return out
    vr = js.get("verification-results", {})
    out["verified"] = vr.get("verified", 0)
    out["n_errors"] = vr.get("errors", 0)
    out["smt_ms"] = js.get("times-ms", {}).get("smt", {}).get("total")
    fb = []
    for m in js.get("times-ms", {}).get("smt", {}).get("smt-run-module-times", []):
        for f in m.get("function-breakdown", []):
            fb.append({"function": f["function"], "mode": f.get("mode:", f.get("mode")), "ok": bool(f["success"]),
                       "us": f.get("time-micros", 0)})
    out["functions"] = fb
    out["errors"] = parse_errors(r.stderr, path)
    if vr.get("encountered-vir-error") or (not fb and not vr.get("success")):
        out["status"] = "tool-error"      # unsupported construct / type error: never a violation
    elif vr.get("success"):
        out["status"] = "ok"
    else:
        # rlimit / timeout inside z3 => undecided
        if re.search(r"Resource limit \(rlimit\) exceeded|verification timed out|could not finish", r.stderr):
            out["status"] = "rlimit"
        else:
            out["status"] = "failed"
    return out


def parse_errors(stderr: str, path: str) -> List[dict]:
    """Split rustc-style diagnostics; for each error collect (kind, all `--> file:line` locations)."""
    src_lines = open(path).read().split("\n")
    errs = []
    blocks = re.split(r"\n(?=error|warning|note: function body check)", "\n" + stderr)
    for b in blocks:
        b = b.strip("\n")
        m = re.match(r"error(?:\[E\d+\])?: (.*)", b)
        if not m:
            continue
        kind = m.group(1).strip()
        if kind.startswith("aborting due to"):
            continue
        locs = []
        # primary location
        pm = re.search(r"-->\s+(\S+?):(\d+):(\d+)", b)
        if pm:
            locs.append(int(pm.group(2)))
        # secondary labelled lines: lines of form " NNN | ..." are included in the block
        for lm in re.finditer(r"^\s*(\d+)\s*\|", b, re.M):
            locs.append(int(lm.group(1)))
        clause_line = locs[0] if locs else None
        clause = src_lines[clause_line - 1].strip() if clause_line and clause_line <= len(src_lines) else ""
        tags = re.findall(r"\bC\d\d\b", clause.split("//", 1)[1]) if "//" in clause else []
        errs.append({"kind": kind, "line": clause_line, "clause": clause, "tags": tags, "lines": sorted(set(locs)),
                     "text": b[:3000]})
    return errs


def enclosing_fn(gen_text_lines: List[str], line: int) -> str:
    """Name of the closest preceding `fn name` in the generated file (for attributing an error)."""
    for k in range(line - 1, -1, -1):
        m = re.search(r"\bfn\s+([A-Za-z_][A-Za-z0-9_]*)", gen_text_lines[k])
        if m:
            return m.group(1)
    return "?"


def generate(template: str, out_rs: str) -> Optional[str]:
    """Returns None on success, or the lost-anchor message."""
    try:
        text, man = hvxgen.generate(template)
        hvxgen.selfcheck(text, man)
    except hvxgen.Lost as e:
        return str(e)
    except Exception as e:  # lexer errors etc.
        return f"extractor error: {e!r}"
    os.makedirs(os.path.dirname(out_rs), exist_ok=True)
    with open(out_rs, "w") as f:
        f.write(text)
    with open(out_rs[:-3] + ".json", "w") as f:
        json.dump(man, f)
    return None


def trusted_scan(path: str) -> List[str]:
    out = []
    for i, ln in enumerate(open(path).read().split("\n"), 1):
        s = ln.strip()
        if s.startswith("//"):
            continue
        if TRUST_PAT.search(s):
            out.append(f"{os.path.basename(path)}:{i}: {s[:160]}")
    return out


def spliced_functions(out_rs: str) -> List[dict]:
    man = json.load(open(out_rs[:-3] + ".json"))
    return [{"src": r["src"], "ctx": r.get("ctx", ""), "fn": r["name"]} for r in man
            if r["kind"] == "fn" and r.get("body_tokens")]
