"""Minimal Rust lexer + item finder used by hvx (stdlib only).

Tokens carry their source span so that extracted items can be spliced verbatim (formatting and
inner comments preserved).  Comments and whitespace are not tokens.  Doc comments (`///`, `//!`,
`/** */`) are comments here, i.e. dropped from token streams -- this is item 1 of DESIGN.md §3.1's
"what extraction drops" list.
"""
from __future__ import annotations

import re
from dataclasses import dataclass
from typing import List, Optional, Tuple


@dataclass
class Tok:
    kind: str  # ident | num | str | char | life | punct
    text: str
    start: int
    end: int

    def __repr__(self):
        return f"{self.text!r}"


_IDENT_START = re.compile(r"[A-Za-z_]")
_IDENT = re.compile(r"[A-Za-z_][A-Za-z0-9_]*")
_NUM = re.compile(r"[0-9][0-9A-Za-z_]*(\.[0-9][0-9A-Za-z_]*)?")


class LexError(Exception):
    pass


def lex(src: str) -> List[Tok]:
    toks: List[Tok] = []
    i, n = 0, len(src)
    while i < n:
        c = src[i]
        if c.isspace():
            i += 1
            continue
        if src.startswith("//", i):
            j = src.find("\n", i)
            i = n if j < 0 else j
            continue
        if src.startswith("/*", i):
            depth, j = 1, i + 2
            while j < n and depth:
                if src.startswith("/*", j):
                    depth += 1
                    j += 2
                elif src.startswith("*/", j):
                    depth -= 1
                    j += 2
                else:
                    j += 1
            if depth:
                raise LexError("unterminated block comment")
            i = j
            continue
        # raw strings / byte strings / c strings
        m = re.match(r"(b|c)?r(#*)\"", src[i:])
        if m:
            hashes = m.group(2)
            close = '"' + hashes
            j = src.find(close, i + m.end())
            if j < 0:
                raise LexError("unterminated raw string")
            j += len(close)
            toks.append(Tok("str", src[i:j], i, j))
            i = j
            continue
        if c == '"' or (c in "bc" and i + 1 < n and src[i + 1] == '"'):
            j = i + (2 if c in "bc" else 1)
            while j < n and src[j] != '"':
                j += 2 if src[j] == "\\" else 1
            j += 1
            toks.append(Tok("str", src[i:j], i, j))
            i = j
            continue
        if c == "'" or (c == "b" and i + 1 < n and src[i + 1] == "'"):
            k = i + (1 if c == "b" else 0)
            # char literal or lifetime
            if k + 1 < n and src[k + 1] == "\\":
                j = k + 2
                while j < n and src[j] != "'":
                    j += 1
                j += 1
                toks.append(Tok("char", src[i:j], i, j))
                i = j
                continue
            # 'x' (any single char, possibly multibyte) followed by '
            if k + 2 < n and src[k + 2] == "'":
                j = k + 3
                toks.append(Tok("char", src[i:j], i, j))
                i = j
                continue
            m = _IDENT.match(src, k + 1)
            if m and c == "'":
                toks.append(Tok("life", src[i:m.end()], i, m.end()))
                i = m.end()
                continue
            raise LexError(f"bad quote at {i}")
        if _IDENT_START.match(c):
            m = _IDENT.match(src, i)
            # raw identifier r#foo
            if m.group(0) == "r" and src.startswith("#", m.end()) and _IDENT.match(src, m.end() + 1):
                m2 = _IDENT.match(src, m.end() + 1)
                toks.append(Tok("ident", src[i:m2.end()], i, m2.end()))
                i = m2.end()
                continue
            toks.append(Tok("ident", m.group(0), i, m.end()))
            i = m.end()
            continue
        if c.isdigit():
            m = _NUM.match(src, i)
            # avoid swallowing `1..2` or `1.method()`
            text = m.group(0)
            if m.group(1) is None and src.startswith(".", m.end()) and not src.startswith("..", m.end()):
                pass
            toks.append(Tok("num", text, i, i + len(text)))
            i += len(text)
            continue
        toks.append(Tok("punct", c, i, i + 1))
        i += 1
    return toks


OPEN = {"(": ")", "[": "]", "{": "}"}
CLOSE = {")", "]", "}"}


def match_close(toks: List[Tok], i: int) -> int:
    """toks[i] is an opening bracket; return index of its matching close."""
    assert toks[i].text in OPEN, toks[i]
    depth = 0
    for j in range(i, len(toks)):
        t = toks[j]
        if t.kind == "punct":
            if t.text in OPEN:
                depth += 1
            elif t.text in CLOSE:
                depth -= 1
                if depth == 0:
                    return j
    raise LexError("unbalanced brackets")


def texts(toks: List[Tok]) -> List[str]:
    return [t.text for t in toks]


def norm(s: str) -> List[str]:
    return texts(lex(s))


@dataclass
class Item:
    kind: str            # impl | trait | fn | struct | enum | macro_rules | mod | other
    header: List[Tok]    # tokens from keyword (incl. leading `pub`, `unsafe`…) up to (excl.) `{` / `;`
    body_open: Optional[int]   # token index of `{` (None for `;`-terminated)
    body_close: Optional[int]
    first: int           # index of first header token
    last: int            # index of last token of item (closing brace or `;`)
    name: str = ""


_QUALS = {"pub", "unsafe", "const", "async", "default", "extern"}


def _skip_attr(toks, i):
    # toks[i] == '#', optional '!', then '[' ... ']'
    j = i + 1
    if j < len(toks) and toks[j].text == "!":
        j += 1
    if j < len(toks) and toks[j].text == "[":
        return match_close(toks, j) + 1
    return i + 1


def items_in(toks: List[Tok], lo: int, hi: int) -> List[Item]:
    """Enumerate items among toks[lo:hi] at one nesting level (file level or inside `{}` of impl/trait/mod)."""
    out: List[Item] = []
    i = lo
    while i < hi:
        t = toks[i]
        if t.text == "#":
            i = _skip_attr(toks, i)
            continue
        first = i
        # qualifiers
        j = i
        while j < hi and toks[j].kind == "ident" and toks[j].text in _QUALS:
            j += 1
            if toks[j - 1].text == "pub" and j < hi and toks[j].text == "(":
                j = match_close(toks, j) + 1
            if toks[j - 1].text == "extern" and j < hi and toks[j].kind == "str":
                j += 1
        if j >= hi:
            break
        kw = toks[j].text
        kind = kw if kw in ("impl", "trait", "fn", "struct", "enum", "mod", "type", "use", "static", "union") else "other"
        if kw == "macro_rules":
            kind = "macro_rules"
        if toks[j - 1].text == "const" and kw != "fn" and j - 1 >= first and kind == "other":
            kind = "const"
        # find end of item: first `{` or `;` at bracket depth 0 (parens/brackets skipped)
        k = j
        body_open = None
        while k < hi:
            tt = toks[k].text
            if toks[k].kind == "punct" and tt in ("(", "["):
                k = match_close(toks, k) + 1
                continue
            if toks[k].kind == "punct" and tt == "{":
                body_open = k
                break
            if toks[k].kind == "punct" and tt == ";":
                break
            k += 1
        if k >= hi:
            break
        if body_open is not None:
            body_close = match_close(toks, body_open)
            last = body_close
            # `struct X {..}` / macro invocations `foo! {..}` may be followed by nothing; `x! {..};` rare
            if kind == "macro_rules" or (kind == "other"):
                if last + 1 < hi and toks[last + 1].text == ";":
                    last += 1
            header = toks[first:body_open]
        else:
            body_close = None
            last = k
            header = toks[first:k]
        name = ""
        if kind in ("fn", "struct", "enum", "trait", "mod", "type", "union") and j + 1 < hi:
            name = toks[j + 1].text
        if kind == "macro_rules" and j + 2 < hi:
            name = toks[j + 2].text
        out.append(Item(kind, header, body_open, body_close, first, last, name))
        i = last + 1
    return out


def strip_attrs(toks: List[Tok]) -> List[Tok]:
    """Remove `#[...]` / `#![...]` attribute token groups from a token list."""
    out = []
    i = 0
    while i < len(toks):
        if toks[i].text == "#" and i + 1 < len(toks) and toks[i + 1].text in ("[", "!"):
            j = i + 1
            if toks[j].text == "!":
                j += 1
            if j < len(toks) and toks[j].text == "[":
                # find matching ]
                depth = 0
                while j < len(toks):
                    if toks[j].text == "[":
                        depth += 1
                    elif toks[j].text == "]":
                        depth -= 1
                        if depth == 0:
                            break
                    j += 1
                i = j + 1
                continue
        out.append(toks[i])
        i += 1
    return out


def split_header_where(header: List[Tok]) -> Tuple[List[Tok], List[Tok]]:
    """Split an item header at the top-level `where` keyword: (before, where-predicates without `where`)."""
    depth = 0
    for idx, t in enumerate(header):
        if t.kind == "punct" and t.text in ("(", "[", "<"):
            depth += 1
        elif t.kind == "punct" and t.text in (")", "]"):
            depth -= 1
        elif t.kind == "punct" and t.text == ">" and idx > 0 and header[idx - 1].text not in ("-", "="):
            depth -= 1
        elif t.kind == "ident" and t.text == "where" and depth == 0:
            return header[:idx], header[idx + 1:]
    return header, []
