#!/usr/bin/env python3
"""hvx gen: splice real code from /repo into a Verus (or Rust) template.

Template directives (each on its own line, leading whitespace allowed):

  //@src NAME = path/in/repo.rs              plain source file
  //@src NAME = macro:path.rs:macro_name     macro_rules! body instantiated once per invocation argument
  //@src NAME = expanded:crate               `rustc -Zunpretty=expanded` output of a workspace crate (cached)
  //@struct NAME | StructName                emit the struct definition (attributes and docs dropped)
  //@impl NAME | <impl header up to where/{> [| where <extra ghost predicates>]
                                             emit the real impl header (incl. its own where clause) plus ghost bounds;
                                             becomes the context of following //@fn directives
  //@trait NAME | <trait header>  [| sup <ghost supertraits>]
                                             emit real trait header (+ ghost supertraits); context for //@fn
  //@free NAME                               context = free functions of the file
  //@fn fname [| ret=name] [| rewrite=r1,r2] [| recv_ghost] then spec lines (requires/ensures/decreases) then either
  //@body                                    emit real body verbatim
  //@nobody                                  emit `;` (trait method declaration) -- checks the source has no body either,
                                             or drops a default body if `| dropdefault` was given on //@fn
  //@body+                                   real body with insertions; followed by blocks
        //@at before|after <anchor token text>      (anchor must occur exactly once in the body)
        ...text inserted...
     and terminated by  //@end

Everything else in the template is copied as is (it is ghost/spec text by convention; `check_ghost_only`
in the runner greps the template for exec `fn` items outside directives).

Exit codes: 0 ok, 2 lost anchor / drift (message on stderr as `HVX-LOST: ...`).
"""
from __future__ import annotations

import hashlib
import os
import re
import subprocess
import sys
from typing import Dict, List, Optional, Tuple

sys.path.insert(0, os.path.dirname(os.path.abspath(__file__)))
from rustlex import (Item, Tok, items_in, lex, match_close, norm, split_header_where, strip_attrs,  # noqa: E402
                     texts)

REPO = os.environ.get("HVX_REPO", "/repo")
CACHE = os.environ.get("HVX_CACHE", os.path.join(os.environ.get("HVX_BUILD", "/verif/build"), "hvx-cache"))


class Lost(Exception):
    pass


class Source:
    def __init__(self, name: str, spec: str):
        self.name = name
        self.spec = spec
        self.text = self._load(spec)
        self.toks = lex(self.text)
        self.items = items_in(self.toks, 0, len(self.toks))

    def _load(self, spec: str) -> str:
        if spec.startswith("macro:"):
            _, path, mname = spec.split(":")
            return instantiate_macro(os.path.join(REPO, path), mname)
        if spec.startswith("expanded:"):
            return expanded_crate(spec.split(":", 1)[1])
        p = os.path.join(REPO, spec)
        if not os.path.exists(p):
            raise Lost(f"source file {spec} not found")
        return open(p).read()

    def span(self, a: Tok, b: Tok) -> str:
        return self.text[a.start:b.end]


def instantiate_macro(path: str, mname: str) -> str:
    """Textual instantiation of a single-arm `macro_rules! m { ( $( $x:ty ),* ) => { $( BODY )* }; }`
    for every argument of its (single) invocation `m! { a, b, c }`.  Mechanical: `$x` -> argument."""
    if not os.path.exists(path):
        raise Lost(f"{path} missing")
    text = open(path).read()
    toks = lex(text)
    its = items_in(toks, 0, len(toks))
    mac = [it for it in its if it.kind == "macro_rules" and it.name == mname]
    if len(mac) != 1:
        raise Lost(f"macro_rules! {mname} not found exactly once in {path}")
    m = mac[0]
    inner = toks[m.body_open + 1:m.body_close]
    # pattern: ( $( $x:ty ),* ) => { $( BODY )* } ;
    if not (inner[0].text == "(" and inner[1].text == "$" and inner[2].text == "("):
        raise Lost(f"macro {mname}: unsupported matcher shape")
    pclose = match_close(toks, m.body_open + 1)
    var = toks[m.body_open + 1 + 4].text  # $( $ x
    k = pclose + 1
    if not (toks[k].text == "=" and toks[k + 1].text == ">" and toks[k + 2].text == "{"):
        raise Lost(f"macro {mname}: unsupported arm shape")
    bopen = k + 2
    bclose = match_close(toks, bopen)
    # $( BODY )*
    if not (toks[bopen + 1].text == "$" and toks[bopen + 2].text == "("):
        raise Lost(f"macro {mname}: unsupported transcriber shape")
    ropen = bopen + 2
    rclose = match_close(toks, ropen)
    body_toks = toks[ropen + 1:rclose]
    # invocation
    inv = None
    for idx, t in enumerate(toks):
        if t.text == mname and idx + 1 < len(toks) and toks[idx + 1].text == "!" and toks[idx - 1].text != "macro_rules":
            inv = idx
    if inv is None:
        raise Lost(f"macro {mname}: invocation not found")
    aopen = inv + 2
    aclose = match_close(toks, aopen)
    args: List[str] = []
    cur: List[str] = []
    for t in toks[aopen + 1:aclose]:
        if t.text == ",":
            args.append(" ".join(cur))
            cur = []
        else:
            cur.append(t.text)
    if cur:
        args.append(" ".join(cur))
    out = []
    for a in args:
        # substitute `$ var` by the argument, keeping original text between tokens
        pieces = []
        pos = body_toks[0].start
        i = 0
        while i < len(body_toks):
            t = body_toks[i]
            if t.text == "$" and i + 1 < len(body_toks) and body_toks[i + 1].text == var:
                pieces.append(text[pos:t.start])
                pieces.append(a)
                pos = body_toks[i + 1].end
                i += 2
                continue
            i += 1
        pieces.append(text[pos:body_toks[-1].end])
        out.append(f"// ---- {mname}!({a})\n" + "".join(pieces))
    return "\n".join(out) + "\n"


def tree_hash(paths: List[str]) -> str:
    h = hashlib.sha256()
    for root in paths:
        for dp, dn, fn in sorted(os.walk(root)):
            dn[:] = sorted(d for d in dn if d not in ("target", ".git"))
            for f in sorted(fn):
                p = os.path.join(dp, f)
                h.update(p.encode())
                try:
                    h.update(open(p, "rb").read())
                except OSError:
                    pass
    return h.hexdigest()[:20]


def expanded_crate(crate: str) -> str:
    """rustc -Zunpretty=expanded of a workspace crate, run on the current working tree.  Cached by
    content hash of the crate and its proc-macro crate."""
    srcs = [os.path.join(REPO, crate), os.path.join(REPO, crate + "_macro")]
    key = tree_hash([s for s in srcs if os.path.isdir(s)])
    os.makedirs(CACHE, exist_ok=True)
    cp = os.path.join(CACHE, f"expanded-{crate}-{key}.rs")
    if os.path.exists(cp):
        return open(cp).read()
    env = dict(os.environ, RUSTC_BOOTSTRAP="1", CARGO_NET_OFFLINE="true",
               CARGO_TARGET_DIR=os.path.join(os.path.dirname(CACHE), "expand-target"))
    r = subprocess.run(["cargo", "rustc", "--offline", "-p", crate, "--lib", "--", "-Zunpretty=expanded"],
                       cwd=REPO, env=env, capture_output=True, text=True)
    if r.returncode != 0 or "fn " not in r.stdout:
        raise Lost(f"cargo expand of {crate} failed: {r.stderr[-2000:]}")
    with open(cp, "w") as f:
        f.write(r.stdout)
    return r.stdout


# ------------------------------------------------------------------------------------------------


def text_without_attrs(src: Source, toks: List[Tok]) -> str:
    """Source text of a token range with `#[...]` attribute groups cut out (original spacing kept)."""
    keep = strip_attrs(toks)
    keepset = {id(t) for t in keep}
    out = []
    pos = toks[0].start
    i = 0
    while i < len(toks):
        t = toks[i]
        if id(t) in keepset:
            i += 1
            continue
        # start of an attribute group: cut [t.start, end of group)
        j = i
        while j < len(toks) and id(toks[j]) not in keepset:
            j += 1
        out.append(src.text[pos:t.start])
        pos = toks[j - 1].end
        i = j
    out.append(src.text[pos:toks[-1].end])
    # doc comments that belonged to removed attributes / fields are harmless; strip `///` lines for Verus
    txt = "".join(out)
    txt = re.sub(r"^[ \t]*//[/!].*$", "", txt, flags=re.M)
    return txt


def find_item(src: Source, kind: str, header_sel: List[str], scope: Optional[List[Item]] = None) -> Item:
    """Find an impl/trait item whose header (attributes stripped, before `where`) equals header_sel."""
    cands = []
    for it in (scope if scope is not None else all_items(src)):
        if it.kind != kind:
            continue
        head, _ = split_header_where(strip_attrs(it.header))
        if texts(head) == header_sel:
            cands.append(it)
    if len(cands) != 1:
        raise Lost(f"{src.spec}: {kind} `{' '.join(header_sel)}` found {len(cands)} times")
    return cands[0]


def all_items(src: Source) -> List[Item]:
    """File-level items plus items of inline `mod` blocks (non-test)."""
    out = []

    def rec(items):
        for it in items:
            out.append(it)
            if it.kind == "mod" and it.body_open is not None:
                rec(items_in(src.toks, it.body_open + 1, it.body_close))
    rec(src.items)
    return out


def find_fn(src: Source, ctx: Optional[Item], name: str) -> Item:
    if ctx is None:
        scope = all_items(src)
    else:
        scope = items_in(src.toks, ctx.body_open + 1, ctx.body_close)
    c = [it for it in scope if it.kind == "fn" and it.name == name]
    if len(c) != 1:
        raise Lost(f"{src.spec}: fn `{name}` found {len(c)} times in context")
    return c[0]


def sig_with_named_ret(src: Source, fn: Item, ret: Optional[str]) -> str:
    hdr = strip_attrs(fn.header)
    # locate `->` at depth 0
    depth = 0
    arrow = None
    for i, t in enumerate(hdr):
        if t.text in ("(", "[", "<"):
            depth += 1
        elif t.text in (")", "]"):
            depth -= 1
        elif t.text == ">" and hdr[i - 1].text == "-" and hdr[i - 1].end == t.start:
            if depth == 0:
                arrow = i
        elif t.text == ">" and hdr[i - 1].text != "=":
            depth -= 1
    head, wh = split_header_where(hdr)
    if arrow is None or ret is None:
        s = src.text[hdr[0].start:head[-1].end]
        tail = ""
    else:
        rt_toks = head[arrow + 1:]
        s = src.text[hdr[0].start:hdr[arrow].end] + f" ({ret}: " + src.text[rt_toks[0].start:rt_toks[-1].end] + ")"
        tail = ""
    if wh:
        tail = "\n    where " + src.text[wh[0].start:wh[-1].end]
    return s + tail


REWRITES = {}


def rw_oreq(body: str) -> str:
    """`lhs |= rhs;` -> `{ let __t = rhs; lhs = lhs || __t; }` (bool only; Verus rejects `|` on bool).
    Evaluates rhs first, unconditionally, exactly as `|=` does."""
    def f(m):
        return f"{{ let __t = {m.group(2)}; {m.group(1)} = {m.group(1)} || __t; }}"
    return re.sub(r"([A-Za-z_][A-Za-z0-9_\.]*)\s*\|=\s*([^;]+);", f, body)


def rw_unreachable(body: str) -> str:
    """std macro expansions naming unstable internals are re-sugared (expanded text only)."""
    body = re.sub(r"::core::panicking::panic\(\s*\"internal error: entered unreachable code\"\s*,?\s*\)",
                  "::core::unreachable!()", body)
    return body


def rw_crate_root(body: str) -> str:
    return body


REWRITES = {"oreq": rw_oreq, "unreachable": rw_unreachable}


def expand_foreach(lines: List[str]) -> List[str]:
    """`//@foreach X in a b c` ... `//@endfor`: repeat the enclosed template text with `$X` replaced."""
    out: List[str] = []
    i = 0
    while i < len(lines):
        m = re.match(r"\s*//@foreach\s+(\w+)\s+in\s+(.*)$", lines[i])
        if not m:
            out.append(lines[i])
            i += 1
            continue
        var, vals = m.group(1), m.group(2).split()
        j = i + 1
        block = []
        while j < len(lines) and lines[j].strip() != "//@endfor":
            block.append(lines[j])
            j += 1
        if j >= len(lines):
            raise Lost("//@foreach without //@endfor")
        for v in vals:
            out.extend(b.replace("$" + var, v) for b in block)
        i = j + 1
    return out


def generate(template_path: str) -> Tuple[str, List[dict]]:
    lines = []
    for ln in open(template_path).read().split("\n"):
        m = re.match(r"\s*//@include\s+(\S+)", ln)
        if m:
            inc = os.path.join(os.path.dirname(os.path.abspath(template_path)), m.group(1))
            lines.extend(open(inc).read().split("\n"))
        else:
            lines.append(ln)
    lines = expand_foreach(lines)
    srcs: Dict[str, Source] = {}
    out: List[str] = []
    manifest: List[dict] = []   # one record per spliced item
    ctx_src: Optional[Source] = None
    ctx_item: Optional[Item] = None
    i = 0
    uid = 0

    def getsrc(n: str) -> Source:
        if n not in srcs:
            raise Lost(f"template uses undefined source alias {n}")
        return srcs[n]

    while i < len(lines):
        ln = lines[i]
        s = ln.strip()
        if not s.startswith("//@"):
            out.append(ln)
            i += 1
            continue
        d = s[3:].strip()
        indent = ln[:len(ln) - len(ln.lstrip())]
        if d.startswith("src "):
            m = re.match(r"src\s+(\w+)\s*=\s*(\S+)", d)
            srcs[m.group(1)] = Source(m.group(1), m.group(2))
            out.append(f"{indent}// [hvx] source {m.group(1)} = {m.group(2)}")
            i += 1
            continue
        parts = [p.strip() for p in d.split("|")]
        head = parts[0].split(None, 1)
        cmd = head[0]
        arg0 = head[1] if len(head) > 1 else ""
        opts = {}
        for p in parts[1:]:
            if "=" in p and re.match(r"^\w+=", p):
                k, v = p.split("=", 1)
                opts[k] = v
            else:
                opts.setdefault("_pos", []).append(p)
        pos = opts.get("_pos", [])
        if cmd == "wholefile":
            # the whole source file verbatim, minus `#[cfg(test)] mod ... { }` items
            src = getsrc(arg0)
            text = src.text
            cuts = []
            for it in src.items:
                if it.kind == "mod" and it.body_open is not None:
                    # look back for a #[cfg(test)] attribute directly before the item
                    pre = src.text[max(0, src.toks[it.first].start - 200):src.toks[it.first].start]
                    if re.search(r"#\[cfg\(test\)\]\s*$", pre):
                        a = src.text.rfind("#[cfg(test)]", 0, src.toks[it.first].start)
                        cuts.append((a, src.toks[it.last].end))
            for a, b in sorted(cuts, reverse=True):
                text = text[:a] + text[b:]
            # optional, STATED path substitutions (`| subst=FROM=>TO;;FROM2=>TO2`): used to point an import at a contract double
            substs = []
            for sub in [x for x in opts.get("subst", "").split(";;") if x]:
                a, b = sub.split("=>")
                if a.strip() not in text:
                    raise Lost(f"{src.spec}: subst source `{a.strip()}` not found")
                text = text.replace(a.strip(), b.strip())
                substs.append([a.strip(), b.strip()])
            uid += 1
            out.append(f"/*@B:{uid}*/\n{text}\n/*@E:{uid}*/")
            manifest.append({"uid": uid, "kind": "wholefile", "src": src.spec, "name": src.spec, "tokens": norm(text), "subst": substs})
            for it in all_items(src):
                if it.kind in ("impl", "trait") and it.body_open is not None:
                    for f in items_in(src.toks, it.body_open + 1, it.body_close):
                        if f.kind == "fn" and f.body_open is not None:
                            manifest.append({"uid": 0, "kind": "fn", "src": src.spec, "name": f.name, "body_tokens": ["{"],
                                             "body_text": "{", "ctx": " ".join(texts(split_header_where(strip_attrs(it.header))[0]))})
            i += 1
            continue
        if cmd == "struct":
            src = getsrc(arg0)
            name = pos[0]
            c = [it for it in all_items(src) if it.kind in ("struct", "enum") and it.name == name]
            if len(c) != 1:
                raise Lost(f"{src.spec}: struct {name} found {len(c)} times")
            it = c[0]
            hdr = strip_attrs(it.header)
            # field attributes are dropped too
            body_toks = strip_attrs(src.toks[it.first:it.last + 1])
            txt = text_without_attrs(src, src.toks[it.first:it.last + 1])
            if "derive" in opts:
                # keep selected derives, but only those the source really has (attributes sit right before the item)
                pre = src.text[max(0, src.toks[it.first].start - 600):src.toks[it.first].start]
                have = set(re.findall(r"\w+", " ".join(re.findall(r"#\[derive\(([^)]*)\)\]", pre.split("}")[-1]))))
                want = [d.strip() for d in opts["derive"].split(",") if d.strip()]
                missing = [d for d in want if d not in have]
                if missing:
                    raise Lost(f"{src.spec}: {name} no longer derives {missing}")
                out.append(f"{indent}#[derive({', '.join(want)})]")
            uid += 1
            out.append(f"{indent}/*@B:{uid}*/ {txt} /*@E:{uid}*/")
            manifest.append({"uid": uid, "kind": "struct", "src": src.spec, "name": name,
                             "tokens": [t.text for t in body_toks]})
            i += 1
            continue
        if cmd in ("impl", "trait"):
            src = getsrc(arg0)
            sel = norm(pos[0])
            it = find_item(src, cmd, sel)
            hdr = strip_attrs(it.header)
            headp, wh = split_header_where(hdr)
            txt = src.text[headp[0].start:headp[-1].end]
            extra = [p for p in pos[1:]]
            suptxt = ""
            sup = [p[4:] for p in extra if p.startswith("sup ")]
            whx = [p[6:] for p in extra if p.startswith("where ")]
            gen = [p[4:] for p in extra if p.startswith("gen ")]
            if sup:
                # ghost supertraits appended: `trait X<..>: A` -> `trait X<..>: A + G`  or  `trait X<..>` -> `: G`
                has_colon = False
                depth = 0
                for t in headp:
                    if t.text == "<":
                        depth += 1
                    elif t.text == ">":
                        depth -= 1
                    elif t.text == ":" and depth == 0:
                        has_colon = True
                suptxt = (" + " if has_colon else ": ") + " + ".join(sup)
            if gen:
                # ghost bounds on the trait's / impl's own generic parameter list are expressed as where-predicates
                whx = gen + whx
            wh_txt = src.text[wh[0].start:wh[-1].end].rstrip().rstrip(",") if wh else ""
            preds = [p for p in ([wh_txt] if wh_txt else []) + whx]
            uid += 1
            o = f"{indent}/*@B:{uid}*/ {txt} /*@E:{uid}*/{suptxt}"
            if preds:
                o += "\n" + indent + "where " + ",\n      ".join(preds) + ","
            out.append(o)
            manifest.append({"uid": uid, "kind": cmd, "src": src.spec, "name": " ".join(sel),
                             "tokens": texts(headp), "where_tokens": texts(wh)})
            ctx_src, ctx_item = src, it
            i += 1
            continue
        if cmd == "free":
            ctx_src, ctx_item = getsrc(arg0), None
            i += 1
            continue
        if cmd == "type":
            # associated type of the context impl, verbatim
            scope = items_in(ctx_src.toks, ctx_item.body_open + 1, ctx_item.body_close)
            c = [it for it in scope if it.kind == "type" and it.name == arg0]
            if len(c) != 1:
                raise Lost(f"{ctx_src.spec}: assoc type {arg0} found {len(c)} times")
            tt = strip_attrs(ctx_src.toks[c[0].first:c[0].last + 1])
            uid += 1
            out.append(f"{indent}/*@B:{uid}*/ " + text_without_attrs(ctx_src, ctx_src.toks[c[0].first:c[0].last + 1]) + f" /*@E:{uid}*/")
            manifest.append({"uid": uid, "kind": "type", "src": ctx_src.spec, "name": arg0, "tokens": texts(tt)})
            i += 1
            continue
        if cmd == "fn":
            if ctx_src is None:
                raise Lost("//@fn without context")
            src = ctx_src
            fname = arg0
            fn = find_fn(src, ctx_item, fname)
            sig = sig_with_named_ret(src, fn, opts.get("ret"))
            # collect spec lines
            j = i + 1
            spec: List[str] = []
            while j < len(lines) and not lines[j].strip().startswith("//@"):
                spec.append(lines[j])
                j += 1
            if j >= len(lines):
                raise Lost(f"//@fn {fname}: missing //@body")
            term = lines[j].strip()[3:].strip()
            uid += 1
            rec = {"uid": uid, "kind": "fn", "src": src.spec, "name": fname,
                   "ctx": " ".join(texts(split_header_where(strip_attrs(ctx_item.header))[0])) if ctx_item else "-",
                   "sig_tokens": texts(strip_attrs(fn.header))}
            out.append(f"{indent}/*@S:{uid}*/ {sig}")
            out.extend(spec)
            if term == "nobody":
                if fn.body_open is not None and "dropdefault" not in pos:
                    raise Lost(f"{src.spec}: fn {fname} has a body but template says nobody")
                out.append(f"{indent};")
                rec["body_tokens"] = None
                j += 1
            elif term == "stub":
                # callee contract: real signature + spec lines, body NOT taken (the function is `external_body` in the template:
                # its contract is assumed here and checked elsewhere); recorded so evidence can list it as assumed
                out.append(f"{indent}{{ unimplemented!() }}")
                rec["body_tokens"] = None
                rec["stub"] = True
                j += 1
            elif term in ("body", "body+"):
                if fn.body_open is None:
                    raise Lost(f"{src.spec}: fn {fname} has no body")
                btoks = src.toks[fn.body_open:fn.body_close + 1]
                body = src.text[btoks[0].start:btoks[-1].end]
                rec["body_tokens"] = texts(btoks)
                rec["body_text"] = body
                inserts = []
                j += 1
                if term == "body+":
                    while True:
                        if j >= len(lines):
                            raise Lost(f"//@fn {fname}: missing //@end")
                        t = lines[j].strip()
                        if t == "//@end":
                            j += 1
                            break
                        m = re.match(r"//@at\s+(before|after)\s+(.*)$", t)
                        if not m:
                            raise Lost(f"//@fn {fname}: expected //@at or //@end, got {t}")
                        where_, anchor = m.group(1), norm(m.group(2))
                        j += 1
                        ins: List[str] = []
                        while j < len(lines) and not lines[j].strip().startswith("//@"):
                            ins.append(lines[j])
                            j += 1
                        inserts.append((where_, anchor, "\n".join(ins)))
                    # apply insertions on token positions
                    bt = texts(btoks)
                    edits = []
                    for where_, anchor, text_ in inserts:
                        hits = [k for k in range(len(bt) - len(anchor) + 1) if bt[k:k + len(anchor)] == anchor]
                        if len(hits) != 1:
                            raise Lost(f"{src.spec}: fn {fname}: anchor `{' '.join(anchor)}` occurs {len(hits)} times")
                        k = hits[0]
                        p = btoks[k].start if where_ == "before" else btoks[k + len(anchor) - 1].end
                        edits.append((p - btoks[0].start, f" /*@I*/ {text_} /*@/I*/ "))
                    for p, t_ in sorted(edits, reverse=True):
                        body = body[:p] + t_ + body[p:]
                rws = [r for r in opts.get("rewrite", "").split(",") if r]
                for r in rws:
                    body = REWRITES[r](body)
                rec["rewrites"] = rws
                out.append(f"{indent}/*@B:{uid}*/ {body} /*@E:{uid}*/")
            else:
                raise Lost(f"//@fn {fname}: bad terminator {term}")
            manifest.append(rec)
            i = j
            continue
        raise Lost(f"unknown directive {s}")
    return "\n".join(out), manifest


def selfcheck(gen_text: str, manifest: List[dict]) -> None:
    """Re-lex every spliced region of the generated file and compare with the source token stream
    (after the recorded rewrites, with insertion regions removed)."""
    for rec in manifest:
        uid = rec["uid"]
        if uid == 0:
            continue
        m = re.search(r"/\*@B:%d\*/(.*?)/\*@E:%d\*/" % (uid, uid), gen_text, re.S)
        if rec["kind"] == "fn" and rec.get("body_tokens") is None:
            continue
        if not m:
            raise Lost(f"selfcheck: region {uid} missing")
        region = re.sub(r"/\*@I\*/.*?/\*@/I\*/", " ", m.group(1), flags=re.S)
        got = norm(region)
        if rec["kind"] == "fn":
            exp_text = rec["body_text"]
            for r in rec.get("rewrites", []):
                exp_text = REWRITES[r](exp_text)
            exp = norm(exp_text)
        else:
            exp = rec["tokens"]
        if got != exp:
            raise Lost(f"selfcheck: region {uid} ({rec['kind']} {rec['name']}) token mismatch")


def main(argv):
    import json
    if len(argv) < 3:
        print("usage: gen.py <template> <out.rs> [manifest.json]", file=sys.stderr)
        return 2
    try:
        text, man = generate(argv[1])
        selfcheck(text, man)
    except Lost as e:
        print(f"HVX-LOST: {e}", file=sys.stderr)
        return 2
    os.makedirs(os.path.dirname(os.path.abspath(argv[2])), exist_ok=True)
    with open(argv[2], "w") as f:
        f.write(text)
    if len(argv) > 3:
        with open(argv[3], "w") as f:
            json.dump(man, f, indent=1)
    return 0


if __name__ == "__main__":
    sys.exit(main(sys.argv))
