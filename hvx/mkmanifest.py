#!/usr/bin/env python3
"""Regenerate /verif/MANIFEST.json from the registry + the tables below (run after changing what is claimed)."""
import json
import os
import sys

HERE = os.path.dirname(os.path.abspath(__file__))
VERIF = os.path.dirname(HERE)
sys.path.insert(0, HERE)
import registry  # noqa: E402

BASELINE = ("cd /repo && cargo nextest run --workspace --no-fail-fast --tool-config-file pb:/w/lib/nextest.toml --profile pb "
            "--test-threads 8 --offline || cargo test --workspace --no-fail-fast --offline")

COLL = """ SetUnion::merge and is_bot are additionally verified by Verus generically in the backing collection against the trusted collection contract (Len::len is the cardinality of the element set, Extend::extend is union; false for Vec used as a set, which is outside the claim). Collection lattices (iterator-adapter bodies, outside Verus): SetUnion and MapUnion merge / partial_cmp / eq / is_bot / lattice_from are checked by Kani against set-union / key-wise-merge-with-invisible-bottoms oracles written on arrays, for operands of <= 2 elements in every cheap representation (ArraySet/OptionSet/SingletonSet/VecSet/ArrayMap/OptionMap/SingletonMap/VecMap as merged-in and compared values, harness TinySet/TinyMap as Extend receivers), including cross-representation comparisons; VecUnion (length <= 2) against the index-wise-merge-with-extension model; UnionFind (items {0,1,2}, reachable states) against an equivalence-closure matrix (thorough tier). These are bounded by operand size, not proved."""

CLAIMS = {
    "C01": {
        "text": "Every Merge::merge body of Max, Min, WithBot, WithTop, Pair (rustc's expansion of derive(Lattice)), DomPair, (), Point is "
                "verified by Verus, generically in all type parameters, against `abs' == abs.join(other.abs)` where join is an abstract "
                "semilattice whose ACI laws are proved per carrier; ACI of merge is then a lemma over the contracts. 'Every nesting' is the "
                "genericity of the impl proofs. Kani decides, complete per monomorphic instantiation, the executable ACI equations on the "
                "real crate for the same types plus Conflict::merge (let-chain, outside Verus) and serves as counterexample generator." + COLL,
        "note": "Trusted: Verus+Z3, Kani+CBMC, rustc macro expander, hvx tokenizer (token-equality self-check each run); "
                "T: Ord assumed a total order consistent with PartialOrd/Eq (witnessed for the 12 integer types); std collections "
                "(HashSet/BTreeSet/HashMap/BTreeMap/Vec as implementations) not verified; Kani results are for u8/char/() payloads. "
                "Kani cannot decide Max<bool>/Min<bool> (CBMC mis-encodes bool `<`).",
        "technique": "contract-based deductive verification (Verus on spliced real bodies; Kani harness contracts on the real crate)",
        "design": "DESIGN.md §4, §5 C01",
    },
}
CLAIMS["C02"] = dict(CLAIMS["C01"], text="The merge contract's clause `changed == (abs' != abs)` is discharged by Verus for every generic Merge impl listed under "
                     "C01 (same obligations), and `changed == !(other <= old)` follows by lemma_changed_iff_not_leq over the contracts. Kani asserts "
                     "`changed == (after != before) == !(other <= before)` with the crate's own PartialEq/PartialOrd, complete per instantiation.",
                     design="DESIGN.md §4, §5 C01/C02")
CLAIMS["C02"]["text"] += COLL
CLAIMS["C03"] = dict(CLAIMS["C01"], text="eq / partial_cmp / is_bot / is_top / default bodies are verified in two steps: (1) Verus proves each body equal to a "
                     "structural spec (*_spec), (2) a lemma per type proves that spec equal to the order induced by the abstract join (cmp_v), to "
                     "bot()/top() of the carrier, for every nesting (hypotheses cmp_ok/eq_ok on the components). lemma_order proves the induced "
                     "comparison is a partial order with duality. Kani asserts `(a<=b) == !b.merge(a)`, the partial-order laws, is_bot/is_top "
                     "against least/greatest witnesses and default-is-bottom on the real crate, complete per instantiation.",
                     design="DESIGN.md §4, §5 C03")
CLAIMS["C03"]["text"] += COLL
CLAIMS["C04"] = dict(CLAIMS["C01"], text="The abstract joins in the Verus templates are the documented models (max, min, adjoined bottom with bottom entries "
                     "normalised away, adjoined top, component-wise product, lexicographic dominating pair, conflict-on-inequality, one-point); the "
                     "merge and lattice_from contracts are the refinement statements and are discharged generically (heterogeneous Merge<Other> "
                     "impls are the generic impl blocks themselves). Representation independence is built in: the model is stated on abs().",
                     design="DESIGN.md §4, §5 C04")
CLAIMS["C04"]["text"] += COLL

CLAIMS["C09"] = {
    "text": "Each law checker of lattices::algebra is run by Kani on the carrier {0..N-1} with the operations given by fully symbolic "
            "operation tables (every binary/unary operation on the carrier at once) and must return Ok exactly when the law, written from its "
            "mathematical statement, holds on all tuples: complete for each N in {1,2} (quick) and N = 3 (thorough); loops are bounded by "
            "N^3 with unwinding assertions on. Composite checkers (semigroup ... field) return Ok exactly when the component checkers of the "
            "structure's definition do (N <= 2); in addition Verus proves, for every carrier type, every N and every (deterministic) closure, that the six plain-loop leaf "
            "checkers identity, inverse, nonzero_inverse, absorbing_element, idempotency and no_nonzero_zero_divisors (real bodies, loop invariants "
            "inserted) return Ok exactly when the law written out over the items holds, and that each of the 11 composite checkers (real bodies) "
            "returns Ok exactly when all laws of the structure it names hold, modularly against the leaf checkers' contracts (Ok <=> law). The semiring applications BinaryTrust, Multiplicity and Cost of semiring_application.rs (add / mul / "
            "zero / one bodies) are verified by Verus against abstract semirings whose laws are proved, with the no-overflow condition as an "
            "explicit precondition. This is the property's own quantifier decided symbolically instead of sampled.",
    "note": "Trusted: Kani+CBMC, Verus+Z3; the four leaf checkers that iterate with cartesian_power (associativity, commutativity, left/right_distributes) plus linearity, "
            "bilinearity and the get_single_function helpers are decided for carriers of 1..3 elements only (outside Verus' subset), so the "
            "composites' unbounded proof rests on four leaf contracts that are established bounded; type-level hypotheses of the Verus unit: == / != on "
            "the carrier is structural equality, Clone returns an equal value, closures can always be called and are deterministic; the f64 applications (ConfidenceScore, FuzzyLogic) are excluded.",
    "technique": "contract-based verification: Kani harness contracts (Ok <=> law) over symbolic operation tables on the real crate",
    "design": "DESIGN.md §5 C09, §6.1",
}

CLAIMS["C15"] = {
    "text": "MergeSource::poll_next and TaggedSource::poll_next are extracted verbatim from hydro_deploy_integration on every run and checked "
            "by Kani against a one-poll contract with havoc sources (each poll answers Pending / ended / item arbitrarily), for every cursor "
            "position and every answer pattern, complete for each n in {1,2,3,4} sources (loop bound n): sources are polled in cyclic order "
            "from the cursor, at most once each, polling stops at the first item and exactly that item is returned; ended sources and only "
            "those are removed, survivors keep order and state; Ready(None) iff no source remains; the new cursor designates the survivor "
            "following the last polled source (the cursor fix-up, which yields 'served within one round'). Per-sender order / no loss / no "
            "repeat follow because an item is returned in the call that obtained it (no buffering).",
    "note": "Trusted: Kani+CBMC; n > 4 not covered; the step from the one-poll contract to the whole-stream statement is an induction over "
            "polls argued in DESIGN.md §5 C15, not machine-checked; real sources are assumed to satisfy the Stream protocol only.",
    "technique": "contract-based verification: Kani one-call contract on verbatim-extracted functions with havoc callees",
    "design": "DESIGN.md §5 C15",
}

CLAIMS["C11"] = {
    "text": "dfir_pipes is compiled in place by Kani (overlay copy of the working tree, harness child modules appended to each combinator's "
            "file so private state is reachable). Each Pull combinator gets a one-call (step) contract written as a refinement of the iterator "
            "adapter: from ANY state satisfying the representation invariant, against havoc upstreams whose k-th item is base+k and which answer "
            "Pending/Ended/item arbitrarily, one pull must emit exactly the item the adapter would emit next, lose nothing on Pending (every item "
            "obtained is still held), poll each upstream at most once (never the side whose item is buffered, never an ended non-fused upstream), "
            "end only when the adapter would end; size_hint must bracket the adapter's remaining count whenever upstream hints are correct. "
            "Loop-free combinators (zip, zip_longest, chain, map, inspect, enumerate, take, take_while, fuse, cross_singleton, once/empty/repeat, "
            "iter, either, next, stream/stream_ready/stream_compat) are complete for Item=u8; combinators with an internal loop (filter, "
            "filter_map, skip, skip_while, flat_map, flatten, filter_map_async, flat_map_stream, flatten_stream, for_each, collect) are bounded "
            "(<= 3 upstream items per call). A bounded trace harness from the initial state covers Zip.",
    "note": "Trusted: Kani+CBMC; parametricity in Item/Meta (u8/()); havoc upstreams over-approximate real ones; the induction from step contracts "
            "to whole traces is argued in DESIGN.md §5 C11, not machine-checked; termination is not proved (unwinding assertions only); "
            "accumulator.rs, send_push/send_sink (see C12), from_fn/poll_fn/pending (one-line delegations) have no harness.",
    "technique": "contract-based verification: Kani one-call contracts on the real combinators with symbolic own state and havoc callees",
    "design": "DESIGN.md §5 C11",
}

CLAIMS["C12"] = {
    "text": "Each Push combinator of dfir_pipes (compiled in place, harness child modules appended) gets per-method contracts with symbolic "
            "own state against a havoc downstream that answers Done/Pending arbitrarily on every poll and asserts the push protocol on itself "
            "(start_send only after its last poll_ready answered Done with no send since; never after its poll_finalize answered Done). "
            "Per method: exactly the reference image of the accepted item reaches the right downstream (fanout: both, unzip: component-wise, "
            "demux_var: the addressed one, arity 3), ready_both! polls every downstream even if an earlier one is pending, a buffered item "
            "(flat_map/flatten buffer, persist replay index, accumulate/sort phases) is delivered before anything new, in order, and kept on "
            "Pending; poll_finalize answers Done only after everything was delivered and every downstream finalized. Loop-free methods are "
            "complete for Item=u8; flat_map/flatten/persist/accumulate/sort drains and pull::send_push/send_sink are bounded (<= 3 buffered items).",
    "note": "Trusted: Kani+CBMC; std Vec and sort_unstable_by are trusted (sort harness uses concrete lengths 0..2); fold_keyed/reduce_keyed own an "
            "FxHashMap and are covered for one key only (finalize histories; ~100 s each, in both tiers); filter_map_async (loop-free, complete), flat_map_stream and flatten_stream "
            "(<= 2 further stream items per call) have step contracts with havoc futures / streams, state_push a step contract and a 3-poll finalize "
            "trace, resolve_futures step contracts in both modes against a havoc queue (<= 2 queued outputs; any completion order); re-polling poll_finalize of a downstream that already answered Done (fanout/unzip/demux) is tolerated by the havoc "
            "downstream, as the crate's own fused TestPush does.",
    "technique": "contract-based verification: Kani per-method contracts on the real combinators with symbolic own state and a protocol-asserting havoc downstream",
    "design": "DESIGN.md §5 C12",
}

CLAIMS["C14"] = {
    "text": "sinktools is compiled in place by Kani (overlay, harness child modules appended). Every adaptor method gets a contract with "
            "symbolic own state against havoc downstream sinks that answer Ready(Ok)/Pending/Ready(Err) arbitrarily on every poll, may fail "
            "start_send, and assert the Sink protocol on themselves (start_send only after their last poll_ready answered Ready(Ok); nothing "
            "after an error). map/filter/filter_map/inspect/unzip/for_each/try_for_each/demux_var(arity 3): loop-free, complete for Item=u8: "
            "exactly the right image reaches exactly the addressed sink once, polls are forwarded once to every sink (also when an earlier one "
            "is pending), errors propagate. flat_map/flatten/send_iter/send_stream: bounded (<= 3 buffered items): buffered items are "
            "delivered in order, each after a successful poll_ready, kept on Pending, flush/close only after everything was delivered. "
            "LazySink / LazySource: one call from each state of the Uninit -> Thunkulating -> Done machine with a havoc init future: the init "
            "closure runs at most once, the first item is delivered exactly once before any later item, polls on Uninit are no-ops, nothing is "
            "lost while initialisation is pending.",
    "note": "Trusted: Kani+CBMC; demux_map / demux_map_lazy own a std HashMap and LazySinkSource uses Rc<RefCell>/Arc<Mutex<Vec<Waker>>>: NOT "
            "covered (outside CBMC's practical reach, see DESIGN §3.3); the step-to-trace induction is argued, not machine-checked.",
    "technique": "contract-based verification: Kani per-method contracts on the real adaptors with symbolic own state and protocol-asserting havoc sinks",
    "design": "DESIGN.md §5 C14",
}

CLAIMS["C13"] = {
    "text": "Partial, bounded: SymmetricHashJoin::pull (the join's orchestration) is run by Kani on the real code against the HalfJoinState "
            "contract in executable form (array-backed reference states, set and multiset flavour) and havoc fused upstreams over a 2x2 "
            "key/value domain: along every history of <= 3 pulls from the initial state, every emitted pair is a real match of arrived entries, "
            "emitted + queued always equals the cardinality of the join of everything that arrived, and whenever the join stalls (Pending/Ended) "
            "nothing is left queued and exactly the join was emitted; it ends only when both sides ended.",
    "note": "Thinly covered (and the core of the property's anchors): HalfSetJoinState / HalfMultisetJoinState themselves (FxHashMap + SmallVec + "
            "VecDeque). (a) The three files are extracted verbatim (one stated substitution std::collections::hash_map:: -> rustc_hash::hash_map::) and run "
            "over contract doubles of the hash map and of SmallVec against the HalfJoinState contract in executable form: one built pair + probe "
            "(hit / miss) + queue + full_probe + clear, and two values built under one key (return value of build -- new pair for sets, always true "
            "for multisets -- len, full_probe); (b) the thorough tier also runs the REAL states on the REAL hashbrown table with one built pair. "
            "A probe that returns more than one match (VecDeque::extend of the match queue) and three values under a key exceed 900 s of CBMC and are "
            "in no tier; NewTickJoinIter (tied to std hash_map::Iter) is not covered. A change in build/probe/pop_match or in "
            "the new-tick iterator is not detected; a change in the orchestration is. Code generators in dfir_lang/ops/join*.rs are not covered.",
    "technique": "contract-based verification: Kani bounded histories of the real pull against a reference implementation of the callee contract",
    "design": "DESIGN.md §5 C13",
}

CLAIMS["C10"] = {
    "text": "Bounded: (a) VariadicColumnMultiset of the real variadics crate is checked by Kani against a multiset-of-tuples oracle (schema (u8,u8), <= 3 "
            "inserts from new()): insert always reports true and len counts with multiplicity, iter/into_iter/drain yield exactly the inserted tuples, "
            "contains agrees with membership, drain leaves an empty reusable collection with no stale tuple, extend is repeated insert -- also from a havoc "
            "iterator that answers ANY size_hint the Iterator contract allows (<= 2 offered tuples, onto an empty or one-tuple multiset, followed by one more insert). "
            "(b) VariadicHashSet and VariadicCountedHashSet: variadic_collections.rs is extracted verbatim (whole file, one stated substitution "
            "crate:: -> variadics::) and compiled against a contract double of hashbrown::hash_table; for <= 3 inserted tuples over a 2 x 2 domain: "
            "the set's insert reports true exactly for a new tuple, len counts distinct tuples, contains = membership, iter yields every distinct tuple "
            "once; the counted set's insert always reports true, len counts every insert, contains = membership, the stored multiplicity of every tuple "
            "is its number of inserts; the set's extend from a havoc iterator (any legal size_hint, <= 2 offered tuples) is repeated insert; (thorough) set equality "
            "is equality of tuple sets and counted-set equality is multiset equality, whatever the insertion order (two inserts per side); counted-set equality compares "
            "multiplicities ({a,a,b} != {a,b,b} and {a,a,b} == {b,a,a} for two concrete tuples, three inserts per side: quick tier); (thorough) the same two types on the REAL hashbrown table for one tuple.",
    "note": "NOT covered: iteration and drain of VariadicCountedHashSet (flat_map over a symbolic multiplicity: > 900 s of CBMC even for one tuple), extend of the counted set (measured > 8 min and > 30 GB of CBMC), "
            "FromIterator / into_iter of the two hash-backed sets, GHT users of these collections. Trusted: the hashbrown::hash_table contract double (an "
            "insertion-ordered list searched with the caller's eq closure; the hash value is ignored), std Vec.",
    "technique": "contract-based verification: Kani bounded harness contracts on the real collection code (extracted mechanically) against tuple set / multiset oracles, hashbrown by contract",
    "design": "DESIGN.md §5 C10, §14.4, §14.8",
}

CLAIMS["C36"] = {
    "text": "Partial, bounded: hydro_lang/src/sim/runtime.rs is extracted verbatim (whole file) on every run and compiled under Kani over shims; "
            "the decision and release steps of every UN-KEYED hook are checked for every answer of the bolero driver (a havoc DynDriver: any value in "
            "the requested range), for pending queues of 0..3 u8 items: StreamHook<TotalOrder> releases an in-order prefix (R ++ Q' == Q); "
            "StreamHook<NoOrder>, TopLevelStreamOrderHook, TopLevelFoldHook release a sub-multiset and keep the rest (R + Q' == Q as multisets, "
            "nothing lost or duplicated); SingletonHook re-releases the last released snapshot or releases a queued one and drops exactly the older "
            "versions (so it can never go back); PassthroughSingletonHook releases the latest; StreamOrderHook yields a permutation, MergeOrderedHook / "
            "TopLevelMergeOrderedHook an interleaving that keeps each input in order; every result flag == 'something new is released', a forced "
            "decision is non-trivial; release_decision sends exactly the decided batch in order on the output channel and consumes the decision. "
            "compiled.rs::run_hooks (extracted verbatim) is checked against the SimHook contract with 0..3 havoc hooks: each hook is decided at most "
            "once, forced only if it can decide non-trivially, released exactly once after a decision, and if any hook can release then at least one "
            "released decision is non-trivial (every scheduled tick releases something new).",
    "note": "NOT covered: the keyed hooks (KeyedStreamHook, KeyedSingletonHook, KeyedStreamOrderHook, KeyedMergeOrderedHook, PartiallyOrderedStreamHook and "
            "their TopLevel variants) own FxHashMaps (hashbrown, outside CBMC's reach: a KeyedStreamHook harness with ONE concrete key and two queued items "
            "exceeded 1500 s, and with a scripted driver over a contract double of FxHashMap still 600 s, so the cost is the hook's own collection code); the scheduler loop around run_hooks and SimBuilder wiring; the "
            "log-formatting branches (log_writer is None). The output channel is a CONTRACT DOUBLE of dfir_rs::util::unsync::mpsc (try_send appends and "
            "returns Ok) because the real channel is outside CBMC's reach (C16). Bounds: queue length <= 3 (<= 2 per input for merges), <= 3 hooks; "
            "quick covers MergeOrderedHook with two non-empty inputs by 8 scripted-driver harnesses enumerating every interleaving decision for 2 + 2 items; the "
            "havoc-driver versions (3-4 min each) and the scripts for the smaller inputs are in thorough; TopLevelFoldHook with 2 queued items "
            "exceeds 20 min of CBMC under the havoc driver; it is covered instead by 8 harnesses with a SCRIPTED driver that enumerate every decision "
            "sequence the hook can consume for two items (two include/exclude answers, one Fisher-Yates index), items symbolic.",
    "technique": "contract-based verification: Kani bounded harness contracts on the real hook code (whole file extracted mechanically), havoc driver and havoc hooks as callee contracts",
    "design": "DESIGN.md §5 C36, §14",
}

CLAIMS["C17"] = {
    "text": "Partial (the union-find clause only): dfir_lang::union_find::UnionFind::{find, union, same_set, with_capacity} -- real bodies spliced "
            "token-for-token -- are verified by Verus for every key type and every state satisfying the representation invariant (links form a "
            "forest inside the map), unbounded, INCLUDING termination of the recursive, path-compressing find (measure: chain length; the "
            "temporary `insert(k, k)` cut is handled by a frame lemma). Contracts over the partition x -> representative (absent keys are "
            "singletons): with_capacity starts discrete; find returns the representative and leaves the partition unchanged; union(a, b) returns "
            "a's old representative and joins exactly the classes of a and b, every other class unchanged; same_set(a, b) answers whether a and b "
            "have the same representative and leaves the partition unchanged. By lemma_union_is_closure_step, after any history of calls "
            "same_set answers the equivalence closure of the unioned pairs.",
    "note": "NOT covered -- and the larger part of the property: topo_sort, validate_topo_sort, SubgraphMerge::{new, try_merge, subgraphs} (internal std "
            "HashMap/HashSet/BTreeMap/BTreeSet, recursive inner fn, FnMut closures returning generic IntoIterators: outside Verus' subset; CBMC did not "
            "finish a 2-node topo_sort in 7 min). A change in those functions is NOT detected by this check. UnionFind::new uses the derived "
            "Default and is not spliced. Trusted: stand-in declarations of slotmap::Key and slotmap::SecondaryMap with a finite-map contract "
            "(insert returns the old value, Index/IndexMut need a present key) -- valid when all keys come from one SlotMap and none was removed "
            "(SecondaryMap silently ignores stale keys); `==` on keys is structural. A bounded Kani twin (vk_uf) runs the same file, whatever its implementation, over an array-backed contract "
            "double of SecondaryMap (4 keys, <= 3 unions from empty) against an equivalence-closure matrix: it supplies the counterexample, and it "
            "still decides when find/union are rewritten so that the Verus proof script no longer applies (the Verus unit then reports undecided).",
    "technique": "contract-based deductive verification: Verus on the real bodies (representation invariant, partition view, recursive lemmas, decreases)",
    "design": "DESIGN.md §14.3",
}

CLAIMS["C05"] = {
    "text": "Partial, bounded: the tombstone merge / comparison ALGORITHMS (SetUnionWithTombstones::{merge, partial_cmp, eq, is_bot}, "
            "MapUnionWithTombstones::merge) run under Kani on the real crate with harness array-backed sets/maps standing for any Set / "
            "TombstoneSet implementation (operands of <= 2 elements over a 4-value domain, well-formed: live and tombstones disjoint) against the "
            "documented model tombstones' = t1 ∪ t2, live' = (s1 ∪ s2) minus tombstones': the result is exactly the model, live and tombstones stay "
            "disjoint (nothing resurrected), `changed` iff the value differs, partial_cmp is the order induced by the model join, and a short "
            "history shows a deleted item never reappears when live copies are merged later. The ROARING backend's adapter is under contract too (unit vk_tomb): "
            "struct RoaringTombstoneSet and every impl of it are spliced from tombstone.rs on every run and compiled over a contract double of "
            "roaring::RoaringTreemap; for <= 2 keys present and <= 2 keys offered (4-value u64 domain over both 32-bit halves, havoc size_hint) it satisfies the "
            "TombstoneSet contract the merge harnesses assume: extend / from_iter add exactly the offered keys in any order and with re-deliveries, "
            "union_with is set union and returns the old length, len is the cardinality, contains is membership, into_iter yields every key once. "
            "Together: the roaring-backed lattices behave like the model (hence like the hash-set backend) provided RoaringTreemap behaves as documented.",
    "note": "NOT covered: FstTombstoneSet (fst crate: its adapter sorts and dedups Strings and rebuilds an FST -- outside CBMC's reach, no double written), "
            "hence 'backends are interchangeable' for FST; MapUnionWithTombstones comparisons. A change inside the FST adapter is not detected; a change in "
            "the merge/compare algorithm or in the roaring adapter is. Trusted: the RoaringTreemap contract double (ascending array of <= 4 values, "
            "documented behaviour of roaring 0.11.4 including append's consumption of the first out-of-order value).",
    "technique": "contract-based verification: Kani bounded harness contracts on the real algorithms against a set model, callee collections by contract",
    "design": "DESIGN.md §5 C05, §14.10",
}
CLAIMS["C06"] = {
    "text": "Partial, bounded: Atomize::atomize of SetUnion (operands <= 2 elements) and of WithTop<SetUnion> (<= 1 element, thorough): every atom is "
            "non-bottom, there are no atoms iff the value is bottom, and merging the atoms into the default value gives back the original. "
            "MapUnion::atomize is checked MODULARLY against the Atomize contract of its value type: a havoc value lattice whose atom iterator "
            "yields its atoms in order and answers any size_hint the Iterator contract allows; for maps of <= 2 entries with <= 2 value atoms "
            "each, the atoms are exactly {k: a} for every entry (k, v) and every atom a of v, in order. WithBot::atomize and WithTop::atomize are checked "
            "the same way against the havoc inner lattice (<= 2 inner atoms, any legal size_hint): WithBot yields exactly the wrapped inner atoms (none "
            "for None), WithTop the wrapped inner atoms for Some and the single atom None for top.",
    "note": "Box<dyn Iterator> + flat_map make whole-value harnesses very slow: WithBot<SetUnion>, MapUnion<_, SetUnion> and UnionFind atomize harnesses "
            "exceed 40 min of CBMC even for one-element operands; they are kept in the harness crate with a `deep_` prefix and are in NO tier, so "
            "UnionFind::atomize is NOT covered, and the wrappers / MapUnion are covered modularly only (the step from 'atoms are exactly the wrapped inner "
            "atoms' to 'merging them back reproduces the value' uses the inner type's own Atomize contract and the merge contracts of C01/C04). std collections not covered.",
    "technique": "contract-based verification: Kani bounded harness contracts on the real Atomize impls; MapUnion against a havoc callee contract",
    "design": "DESIGN.md §5 C06, §13",
}
CLAIMS["C07"] = {
    "text": "PairBimorphism::call is verified by Verus generically (r.a == lat_a, r.b == lat_b) and both distributivity equations are a lemma over "
            "the product carrier (lemma_pair_bimorphism). CartesianProductBimorphism::call is checked by Kani against its model (output == A x B, "
            "every pair once; distributivity over union is then set algebra about the model) and, in the thorough tier, by the two-call "
            "distributivity equation (operands <= 2 elements); KeyedBimorphism::call against its key-wise model for one entry per side (concrete keys, symbolic one-element value sets) and, modularly (a cheap tagging value "
            "bimorphism on Max), for 2-3 entries per side in four concrete key shapes (either side larger; the unmatched key first, in the middle or last in iteration order): "
            "the output holds exactly the common keys, each once, with the value bimorphism's output for that key.",
    "note": "GHT bimorphisms are not covered (see C08). KeyedBimorphism::call is covered with CONCRETE keys only (one entry per side: same key / different keys; 2-3 entries per side: four key shapes) -- with symbolic keys the same harness needs 30 min of CBMC and is kept with a `deep_` prefix in no tier. Kani parts are bounded by operand size; Vec as output collection is trusted.",
    "technique": "contract-based deductive verification (Verus on the spliced body + lemma; Kani harness contracts against the product model)",
    "design": "DESIGN.md §5 C07",
}

GENERAL_ASSUMPTIONS = [
    "Verifiers trusted: Verus 0.2026.09.13 + bundled Z3; Kani 0.68 + CBMC 6.11 + its SAT back end; rustc (type checking of the generated files, macro expansion for the -Zunpretty=expanded route).",
    "hvx extractor: token-level splice of real function bodies / whole files from the working tree; every spliced region is re-lexed and compared with the source token stream on every run (a mismatch or a lost anchor is exit 2, never a pass).",
    "Machine arithmetic: executable integers are machine integers in both verifiers (Verus overflow obligations on; Kani overflow checks on); spec-level integers in Verus lemmas are mathematical.",
    "Generic code is verified under type-level hypotheses stated in the contracts (T: Ord is a total order consistent with PartialOrd/Eq; == is structural equality; Clone returns an equal value; closures are callable and deterministic); they are witnessed for the integer types only.",
    "Kani harness results are for the stated monomorphic instantiation (mostly u8 / small arrays); parametricity of the generic code in its item type is assumed.",
    "Havoc neighbours (upstream pulls, downstream pushes/sinks, bolero driver, SimHook implementations, value-lattice atom iterators) over-approximate real neighbours: they may answer anything their protocol allows.",
    "Harness collection doubles (TinySet, TinyMap, TinyPairs, reference HalfJoinState, channel double) stand for 'any implementation of the collection / callee contract'; conformance of std / hashbrown / roaring / fst / slotmap / the real unsync channel to those contracts is assumed, not verified.",
    "Termination is proved only in Verus units (decreases); Kani shows absence of further iterations within the stated unwind bound (unwinding assertions on).",
    "unsafe code: only dfir_pipes::mut_unit() (dangling ZST reference) is in scope; it is executed by CBMC with pointer checks on.",
    "Crate configuration: lattices with features std+alloc (no serde); dfir_pipes, sinktools, variadics default features."
]


def write_assumptions():
    d = {"*": GENERAL_ASSUMPTIONS}
    for pid, c in CLAIMS.items():
        d[pid] = ["Scope and gaps of this claim: " + c["note"]]
    with open(os.path.join(HERE, "assumptions.json"), "w") as f:
        json.dump(d, f, indent=1)

NOT_APPLICABLE = {
    "C08": "GHT nodes own std HashMap / hashbrown HashTable at every level; variadic type recursion is outside Verus' subset and CBMC does not get through hashbrown probing (spiked): no contract on these functions can be discharged here.",
    "C16": "Tool limit, measured: the channel (Rc<RefCell<Shared>>, Weak, VecDeque, SmallVec<[Waker;1]>) extracted verbatim into a Kani harness crate (contracts/kani/vk_mpsc, kept unregistered) drives CBMC to 35-65 GB RSS in propositional reduction for a single try_send call, also with static-vtable wakers, forgotten endpoints, Waker drop/wake/clone stubbed by direct dispatch, and tokio replaced by a shim of the two error types (DESIGN.md section 11 has the bisection); Rc/RefCell/Waker code is outside Verus' subset; the no-stranded-sender part is a liveness property needing whole-history ghost state. The stale-duplicate-waker stranding trace found while reading is documented in DESIGN.md section 6.2 with its native reproduction; no registered check reports it.",
    "C17": "Tool limit, measured: topo_sort / validate_topo_sort / SubgraphMerge::try_merge allocate std HashMap/HashSet/BTreeMap/BTreeSet internally (not swappable through a type parameter; CBMC did not finish a 2-node topo_sort in 7 min even with hasher stubs) and are outside Verus' subset (recursive inner fn, FnMut closures returning generic IntoIterators). The one remaining piece, dfir_lang::union_find::UnionFind over slotmap::SecondaryMap, was extracted verbatim into a Kani harness crate (contracts/kani/vk_uf, kept unregistered): every harness, including a single find on the empty structure with 3 keys, exceeds 1200 s of CBMC time (recursive find + SecondaryMap::insert growth). Nothing of C17 can be discharged here.",
    "C18": "Quantifies over programs the compiler accepts; partition_graph works on DfirGraph (slotmaps of syn AST nodes): no contract over that state is within Verus' subset and Kani cannot build a symbolic DfirGraph.",
    "C19": "Same as C18; the only function-level dependency (topo_sort cycle detection) owns a std HashMap internally and is out of reach (spiked).",
    "C20": "Whole-graph rewrite + serde round trip of DfirGraph; no per-function contract expresses 'preserves the dataflow'.",
    "C21": "About the behaviour of quote!-generated code after rustc compiles it; a postcondition on a code generator says nothing about its output's meaning.",
    "C22": "Relational property between two compiled programs (pull vs push placement): not a pre/postcondition of any function.",
    "C23": "Scheduling property of generated tick closures.",
    "C24": "Only Context::__end_tick (+1) is a function-level fact; the rest is generated code plus the async runner interacting with wakers.",
    "C25": "Ordering of generated closures.",
    "C26": "Generated loop gates / fixpoint iteration of generated code.",
    "C27": "Thread interleavings over atomics and AtomicWaker: Kani has no threads; Verus cannot take std atomics/AtomicWaker code as is.",
    "C28": "Hyperproperty over tick partitions of compiled Hydro programs.",
    "C29": "Quantifies over compiled Hydro programs under varying batching.",
    "C30": "Quantifies over compiled Hydro programs.",
    "C31": "Quantifies over compiled Hydro programs and simulator schedules.",
    "C32": "Hyperproperty relating two executions of compiled programs.",
    "C33": "Multi-tick observation of compiled programs.",
    "C34": "Multi-tick observation of compiled programs.",
    "C35": "Substance is serde/bincode (external) and functions returning syn::Expr; the in-reach facts are field moves.",
    "C37": "Completeness of an enumeration over a driver: a whole-run coverage property, not a per-call contract.",
    "C38": "Determinism is a 2-run hyperproperty (hash-seed dependent); no single-call contract states it.",
    "C39": "Hydro programs run under simulator/production batching.",
    "C40": "Protocol-level inductive invariant of Raft/Paxos over cluster histories.",
    "C41": "Totality of a compiler over well-typed programs.",
    "C42": "2-run / cross-process determinism.",
}

NOT_YET = {}  # properties whose machinery is not finished: named in notes, not in not_applicable


def main():
    checks = []
    for pid in sorted(registry.PROPS):
        if pid not in CLAIMS:
            print(f"note: {pid} has registered units but no claim text yet: left out of MANIFEST (work in progress)")
            continue
        c = CLAIMS[pid]
        checks.append({
            "property_id": pid,
            "quick_cmd": f"./check {pid} --tier quick",
            "thorough_cmd": f"./check {pid} --tier thorough",
            "evidence_file": f"/verif/evidence/{pid}.json",
            "replay_cmd_template": f"./check {pid} --replay {{path}}",
            "engine": "hvx",
            "level_claimed": {"category": registry.LEVEL.get(pid, "other"), "text": c["text"], "design_ref": c["design"]},
            "level_note": c["note"],
            "technique": c["technique"],
        })
    claimed = {p for p in registry.PROPS if p in CLAIMS}
    write_assumptions()
    na = [{"property_id": k, "reason": v} for k, v in sorted(NOT_APPLICABLE.items()) if k not in claimed]
    all_ids = [json.loads(l)["id"] for l in open(os.path.join(VERIF, "properties.jsonl"))]
    pending = [i for i in all_ids if i not in claimed and i not in NOT_APPLICABLE]
    man = {
        "version": 1,
        "setup_cmd": "./setup.sh",
        "hooks": {
            "guard": "hydro_project_hydro_verif",
            "enable": "none needed: no hook in /repo; private state is reached by appending #[cfg(kani)] child modules to an rsync'ed overlay copy",
            "baseline_off_cmd": BASELINE,
            "source_commits": [],
            "add_only": True,
        },
        "engines": [
            {"name": "hvx", "path": "/verif/check", "serves_properties": sorted(claimed),
             "kind_free_text": "extractor (hvx/gen.py) splices real function bodies from /repo into Verus templates; Verus discharges per-function "
                               "obligations; Kani harness crates / overlays run contracts on the real crates; driver maps failed obligations to properties"},
        ],
        "checks": checks,
        "not_applicable": na,
        "notes": ("Contract-based deductive verification only (Verus 0.2026.09.13, Kani 0.68/CBMC 6.11). Exit 2 + `UNDECIDED` = tool limit / lost anchor, "
                  "never reported as a violation. Properties planned in DESIGN.md but whose machinery is not finished yet (neither claimed nor N/A): "
                  + (", ".join(pending) if pending else "none") + ". Three `fix:` commits in /repo (C03 WithTop::is_top, C09 algebra::linearity, C11 FilterMapAsync::size_hint) and two known findings (C03: "
                  "WithBot<()> and the full SetUnion over bool are greatest but is_top() is false), see known_findings.txt and DESIGN.md section 12. Quick tiers take "
                  "10-185 s each (about 21 min for all 16 run one after the other on 16 cores); thorough tiers up to ~13 min each."),
    }
    with open(os.path.join(VERIF, "MANIFEST.json"), "w") as f:
        json.dump(man, f, indent=1)
    print("claimed", sorted(claimed), "n/a", len(na), "pending", pending)


if __name__ == "__main__":
    main()
