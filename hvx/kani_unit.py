"""Run Kani harnesses of one harness crate (dependency mode) or one overlay (private-state mode)
against /repo's current working tree, and parse per-harness / per-check results."""
from __future__ import annotations

import os
import re
import shutil
import subprocess
import sys
import time
from typing import Dict, List, Optional

HERE = os.path.dirname(os.path.abspath(__file__))
VERIF = os.path.dirname(HERE)
REPO = os.environ.get("HVX_REPO", "/repo")
BUILD = os.environ.get("HVX_BUILD", os.path.join(VERIF, "build"))


def _sync_crate(crate_dir: str, dst: str) -> None:
    """Copy the harness crate sources (not target/) into the build area, substituting @REPO@."""
    os.makedirs(dst, exist_ok=True)
    for root, dirs, files in os.walk(crate_dir):
        dirs[:] = [d for d in dirs if d != "target"]
        rel = os.path.relpath(root, crate_dir)
        os.makedirs(os.path.join(dst, rel), exist_ok=True)
        for f in files:
            s = open(os.path.join(root, f)).read().replace("@REPO@", REPO)
            p = os.path.join(dst, rel, f)
            if not os.path.exists(p) or open(p).read() != s:
                with open(p, "w") as fh:
                    fh.write(s)
    # remove stale source files
    for root, dirs, files in os.walk(dst):
        dirs[:] = [d for d in dirs if d != "target"]
        rel = os.path.relpath(root, dst)
        for f in files:
            if f == "Cargo.lock":
                continue
            if not os.path.exists(os.path.join(crate_dir, rel, f)):
                os.remove(os.path.join(root, f))
    shutil.copyfile(os.path.join(REPO, "Cargo.lock"), os.path.join(dst, "Cargo.lock"))


def prepare_overlay(name: str, appends: Dict[str, str]) -> str:
    """rsync the working tree to build/overlay/<name>/ and append harness modules to the listed files.
    `appends` maps repo-relative file -> path of the text to append (a `#[cfg(kani)] mod ...`)."""
    dst = os.path.join(BUILD, "overlay", name)
    os.makedirs(dst, exist_ok=True)
    r = subprocess.run(["rsync", "-a", "--delete", "--exclude", "/target", "--exclude", ".git", "--exclude", "/docs",
                        REPO.rstrip("/") + "/", dst + "/"], capture_output=True, text=True)
    if r.returncode != 0:
        raise RuntimeError("rsync failed: " + r.stderr)
    for rel, src in appends.items():
        p = os.path.join(dst, rel)
        if not os.path.exists(p):
            raise FileNotFoundError(rel)
        with open(p, "a") as f:
            f.write("\n\n// ===== appended by /verif overlay (harness only; nothing above this line is changed) =====\n")
            f.write(open(src).read())
    return dst


def run_kani(cwd: str, harnesses: List[str], package: Optional[str] = None, jobs: int = 8, timeout: int = 1800,
             extra: Optional[List[str]] = None, target_dir: Optional[str] = None, exact: bool = False) -> dict:
    cmd = ["cargo", "kani"]
    if package:
        cmd += ["-p", package]
    cmd += ["-Z", "function-contracts", "-Z", "stubbing", "-Z", "unstable-options", "--output-format", "terse", "-j", str(jobs)]
    if exact:
        cmd += ["--exact"]
    cmd += ["--harness-timeout", os.environ.get("HVX_HARNESS_TIMEOUT", "900s")]
    cmd += (extra or [])
    for h in harnesses:
        cmd += ["--harness", h]
    env = dict(os.environ, CARGO_NET_OFFLINE="true")
    if target_dir:
        env["CARGO_TARGET_DIR"] = target_dir
    t0 = time.time()
    try:
        r = subprocess.run(cmd, cwd=cwd, env=env, capture_output=True, text=True, timeout=timeout)
        out = r.stdout + "\n" + r.stderr
        rc = r.returncode
        timed_out = False
    except subprocess.TimeoutExpired as e:
        out = (e.stdout.decode() if isinstance(e.stdout, bytes) else (e.stdout or "")) + "\n[timeout]"
        rc = -1
        timed_out = True
    res = parse_kani(out)
    res.update({"cmd": " ".join(cmd), "cwd": cwd, "wall_s": time.time() - t0, "returncode": rc, "timed_out": timed_out,
                "raw_tail": out[-6000:]})
    if not res["harnesses"] and not timed_out:
        res["build_error"] = True
        res["raw_tail"] = out[-12000:]
    return res


_H = re.compile(r"^(?:Thread (\d+): )?Checking harness (\S+?)\.\.\.\s*$")
_T = re.compile(r"^Thread (\d+):\s*$")


def parse_kani(out: str) -> dict:
    harnesses: Dict[str, dict] = {}
    cur = None
    lines = out.split("\n")
    by_thread: Dict[str, dict] = {}
    for i, ln in enumerate(lines):
        m = _H.match(ln)
        if m:
            cur = {"name": m.group(2), "status": "unknown", "checks": None, "failed_n": None, "failed": [], "time_s": None,
                   "stubs": []}
            harnesses[cur["name"]] = cur
            if m.group(1) is not None:
                by_thread[m.group(1)] = cur
                cur = None      # with -j the result block is introduced by a `Thread N:` line
            continue
        m = _T.match(ln)
        if m and m.group(1) in by_thread:
            cur = by_thread[m.group(1)]
            continue
        if cur is None:
            continue
        m = re.match(r"\s*\*\* (\d+) of (\d+) failed", ln)
        if m:
            cur["failed_n"], cur["checks"] = int(m.group(1)), int(m.group(2))
        m = re.match(r"Failed Checks: (.*)$", ln)
        if m:
            loc = lines[i + 1].strip() if i + 1 < len(lines) else ""
            cur["failed"].append({"desc": m.group(1).strip(), "loc": loc})
        m = re.match(r"VERIFICATION:- (\w+)", ln)
        if m:
            cur["status"] = m.group(1)
        m = re.match(r"Verification Time: ([0-9.]+)s", ln)
        if m:
            cur["time_s"] = float(m.group(1))
        if "CBMC timed out" in ln or "Verification timed out" in ln or "out of memory" in ln.lower():
            cur["status"] = "TIMEOUT"
    summary = re.search(r"Complete - (\d+) successfully verified harnesses, (\d+) failures, (\d+) total", out)
    return {"harnesses": harnesses,
            "summary": summary.groups() if summary else None,
            "stub_lines": re.findall(r"- Stub: .*", out)}


UNDECIDED_PAT = re.compile(r"unwinding assertion|recursion unwinding|unsupported|not supported|timed out", re.I)


def classify_failed(desc: str) -> str:
    """'clause' (a contract clause `Cxx:...`), 'undecided' (tool bound), or 'real-code' (a check inside real code:
    panic, overflow, pointer, index) -- the latter is a violation of the harness's properties."""
    if re.match(r"C\d\d(\+C\d\d)*:", desc):
        return "clause"
    if UNDECIDED_PAT.search(desc):
        return "undecided"
    return "real-code"
