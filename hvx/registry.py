"""What serves which property: Verus units, Kani harness crates / overlays, canaries, twins.

A *unit* is one verifier invocation target.  A property lists the units (and, for Kani, the harness
filters) that serve it per tier.  Obligation -> property attribution:
  * Verus: by the function's short name (FN_PROPS), refined by `// Cxx` tags on the failed clause line;
  * Kani: by the `Cxx:` prefix of the failed check description; other failed checks inside real code
    (panics, overflow, bounds) are attributed to every property the harness serves.
"""
from __future__ import annotations

import re

LAT = ["C01", "C02", "C03", "C04"]

# ---------------------------------------------------------------------------------------------- Verus
# short function name (regex, fullmatch) -> properties
FN_PROPS = [
    (r"merge", ["C01", "C02", "C04"]),
    (r"lattice_from", ["C04"]),
    (r"is_bot|is_top|is_bot_ok|is_top_ok|default|default_bot|eq|partial_cmp|cmp", ["C03"]),
    (r"lemma_\w*cmp_ok|lemma_maxv_cmp|lemma_minv_cmp|lemma_order", ["C03"]),
    (r"laws", ["C01", "C03", "C04"]),
    (r"lemma_merge_aci", ["C01"]),
    (r"lemma_changed_iff_not_leq", ["C02"]),
    (r"witness_\w+|b_\w+", LAT),
    (r"call|new|lemma_pair_bimorphism", ["C07"]),
    (r"lemma_setv_\w+|lemma_set_\w+", LAT),
    (r"add|mul|zero|one|lemma_semiring_\w+", ["C09"]),
    (r"semigroup|monoid|commutative_monoid|group|abelian_group|distributive|semiring|ring|commutative_ring|integral_domain|field", ["C09"]),
    (r"identity|inverse|nonzero_inverse|absorbing_element|idempotency|no_nonzero_zero_divisors", ["C09"]),
]


def fn_props(short: str, unit_default):
    for pat, props in FN_PROPS:
        if re.fullmatch(pat, short):
            return props
    return unit_default


VERUS_UNITS = {
    "lat_ord": {
        "template": "contracts/verus/lat_ord.rs.in", "props": LAT,
        "what": "lib.rs trait contracts; Max<T>/Min<T> merge, lattice_from, derived+manual eq/partial_cmp (generic T: Ord); "
                "is_bot/is_top/default for the 12 numeric instantiations of impls_numeric!",
        # canary: (regex, replacement, function that must fail)
        "canaries": [(r"changed == \(final\(self\)\.abs\(\) != old\(self\)\.abs\(\)\)", "changed == (final(self).abs() == old(self).abs())", "merge"),
                     (r"if self\.0 < other\.0 \{", "if self.0 <= other.0 {", "merge"),
                     (r"Self\(<i8>::MIN\)", "Self(0)", "default")],
        "twins": ["max_u8::", "min_u8::"],
    },
    "lat_wrap": {
        "template": "contracts/verus/lat_wrap.rs.in", "props": LAT,
        "what": "WithBot<Inner>/WithTop<Inner>: merge, lattice_from, is_bot, is_top, default, eq, partial_cmp, generic in Inner/Other",
        "canaries": [(r"final\(self\)\.abs\(\) == old\(self\)\.abs\(\)\.join\(other\.abs\(\)\)", "final(self).abs() == other.abs().join(other.abs())", "merge"),
                     (r"\(this @ None, Some\(other_inner\)\) if !other_inner\.is_bot\(\) =>", "(this @ None, Some(other_inner)) =>", "merge"),
                     (r"\(None, Some\(_\)\) => Some\(Greater\),", "(None, Some(_)) => Some(Less),", "partial_cmp")],
        "twins": ["withbot_max::", "withtop_max::", "withtop_min::", "withbot_withtop::", "withtop_withbot::"],
    },
    "lat_pair": {
        "template": "contracts/verus/lat_pair.rs.in", "props": LAT + ["C07"],
        "what": "Pair<A,B> from rustc's expansion of derive(Lattice): merge, lattice_from, is_bot, is_top, default, eq, partial_cmp; PairBimorphism::call",
        "canaries": [(r"ensures r\.a == lat_a, r\.b == lat_b,", "ensures r.a == lat_a, r.b != lat_b,", "call"),
                     (r"othr_any_greater = true; \}", "self_any_greater = true; }", "partial_cmp")],
        "twins": ["pair_bt::"],
    },
    "lat_dom": {
        "template": "contracts/verus/lat_dom.rs.in", "props": LAT,
        "what": "DomPair<K,V> (key carrier totally ordered), (), Point (merge_req: equal values), Conflict (all but merge)",
        "canaries": [(r"ensures r == self\.is_bot_spec\(\)", "ensures r != self.is_bot_spec()", "is_bot"),
                     (r"Some\(Greater\) => false,", "Some(Greater) => true,", "merge")],
        "twins": ["dompair::", "dompair_wb::", "conflict_u8::", "unit::", "point_u8"],
    },
}

VERUS_UNITS["lat_set"] = {
    "template": "contracts/verus/lat_set.rs.in", "props": LAT,
    "what": "SetUnion<S>: merge and is_bot, generic in the backing collection S, against the trusted collection contract "
            "(Len::len is the cardinality of the element set, Extend::extend is union); lattice_from / partial_cmp / eq use iterator "
            "adapters (outside Verus' subset) and are decided by Kani on the cheap representations",
    "canaries": [(r"self\.0\.len\(\) > old_len", "self.0.len() >= old_len", "merge"),
                 (r"self\.0\.extend\(other\.0\);", "", "merge"),
                 (r"self\.0\.is_empty\(\)", "!self.0.is_empty()", "is_bot")],
    "twins": ["coll::set_"],
}

VERUS_UNITS["alg_semiring"] = {
    "template": "contracts/verus/alg_semiring.rs.in", "props": ["C09"],
    "what": "semiring_application.rs: BinaryTrust, Multiplicity, Cost add/mul/zero/one against abstract semirings with proved laws (f64 applications excluded)",
    "canaries": [(r"U32WithInfinity::Finite\(a\.min\(b\)\)", "U32WithInfinity::Finite(a.max(b))", "add"),
                 (r"self\.0 = self\.0 && other\.0;", "self.0 = self.0 || other.0;", "mul")],
    "twins": [],
}

VERUS_UNITS["uf_dfir"] = {
    "template": "contracts/verus/uf_dfir.rs.in", "props": ["C17"],
    "what": "dfir_lang::union_find::UnionFind: find (recursive, path compression; termination proved), union, same_set, with_capacity against the "
            "partition model x -> representative, over a trusted finite-map contract of slotmap::SecondaryMap",
    "canaries": [(r"self\.links\[j\] = i;", "self.links[i] = j;", "union"),
                 (r"self\.find\(a\) == self\.find\(b\)", "self.find(a) != self.find(b)", "same_set"),
                 (r"if k == next \{\s*return k;\s*\}", "", "find")],
    "twins": ["harness::uf_"],
}

VERUS_UNITS["alg_compose"] = {
    "template": "contracts/verus/alg_compose.rs.in", "props": ["C09"],
    "what": "algebra.rs: the six plain-loop leaf checkers (identity, inverse, nonzero_inverse, absorbing_element, idempotency, no_nonzero_zero_divisors; real "
            "bodies + loop invariants) return Ok iff the law, written out over the items, holds; the 11 composite checkers (semigroup .. field) "
            "return Ok iff every law of the named structure holds, proved modularly against the leaf contracts -- for every carrier type, N and closure. "
            "The four cartesian_power leaves (associativity, commutativity, left/right_distributes) are assumed by contract here and checked by Kani alg::n1..n3",
    "canaries": [(r"monoid\(items, g, one\)\?;", "monoid(items, g, zero.clone())?;", "semiring"),
                 (r"commutativity\(items, g\)\?;", "commutativity(items, f)?;", "commutative_ring"),
                 (r"right_distributes\(items, f, g\)\?;", "left_distributes(items, f, g)?;", "distributive"),
                 (r"if f\(e\.clone\(\), a\.clone\(\)\) != a\.clone\(\)", "if f(a.clone(), a.clone()) != a.clone()", "identity"),
                 (r"if \*a != zero && \*b != zero", "if *a != zero || *b != zero", "no_nonzero_zero_divisors")],
    "twins": ["alg::c1", "alg::c2", "alg::n1", "alg::n2"],
}

# ---------------------------------------------------------------------------------------------- Kani
# mode 'dep': harness crate with path dependency on /repo crates.
KANI_UNITS = {
    "vk_lat": {
        "mode": "dep", "crate": "contracts/kani/vk_lat", "props": LAT,
        "harness_props": [(r"^alg::", ["C09"]), (r"^coll3::tombstone", ["C05", "C01", "C02", "C03", "C04"]), (r"^coll3::(deep_)?atomize", ["C06"]),
                          (r"^coll3::(cartesian|keyed|deep_keyed)", ["C07"])],
        "what": "lattices twins (C01-C04 executable contract forms) on monomorphic instantiations; Conflict::merge; Max/Min over char, (); Point",
        "instantiation": "u8 / char / () payloads, nestings of depth <= 2; loop-free => complete for the instantiation",
        "bounded": {r"^coll::": "collection operands of <= 2 elements (cheap representations + harness TinySet/TinyMap receivers), keys/elements over all u8",
                    r"^coll3::": "operands of <= 2 elements over a 4-value domain; TinySet stands for any Set/TombstoneSet implementation",
                    r"^coll2::vec": "vectors of length <= 2 over Max<u8>",
                    r"^coll2::union_find": "item domain {0,1,2}, reachable states after <= 2 unions from empty, receiver TinyMap",
                    r"^alg::": "carrier size N <= 3 (all operation tables), loops bounded by N^3: complete per N"},
    },
}

KANI_UNITS["vk_merge"] = {
    "mode": "dep", "crate": "contracts/kani/vk_merge", "props": ["C15"],
    "gen": [("src/extracted.rs.in", "src/extracted.rs")],
    "what": "MergeSource::poll_next / TaggedSource::poll_next extracted verbatim; one-poll contract against havoc sources",
    "instantiation": "n in {1,2,3,4} sources, every cursor, every answer pattern; loop bound = n => complete per n",
}

KANI_UNITS["ov_pipes"] = {
    "mode": "overlay", "crate": "contracts/kani/ov_pipes", "package": "dfir_pipes", "prefix": "dfir_pipes/src", "props": ["C11"],
    "harness_props": [(r"^push::", ["C12"]), (r"symmetric_hash_join", ["C13"]), (r"send_push|send_sink", ["C11", "C12"])],
    "what": "dfir_pipes compiled in place (rsync overlay of the working tree); harness child modules appended to each combinator's file",
    "instantiation": "Item = u8, Meta = (), havoc upstreams/downstreams; loop-free step contracts => complete for the instantiation",
    "bounded": {r"_trace$": "trace of <= 5 calls from the initial state", r"_loop$": "internal loop unwound: <= 3 skipped items / inner length <= 3",
                r"vk_slow": "one key in a real std HashMap with a constant hasher; <= 2 finalize calls"},
}

KANI_UNITS["vk_join"] = {
    "mode": "dep", "crate": "contracts/kani/vk_join", "props": ["C13"],
    "gen": [("src/pull/half_join_state/mod.rs.in", "src/pull/half_join_state/mod.rs"), ("src/pull/half_join_state/set.rs.in", "src/pull/half_join_state/set.rs"),
            ("src/pull/half_join_state/multiset.rs.in", "src/pull/half_join_state/multiset.rs")],
    "what": "dfir_pipes half_join_state/{mod,set,multiset}.rs extracted verbatim (whole files; one stated substitution std::collections::hash_map:: -> "
            "rustc_hash::hash_map::) over a contract double of the hash map; the REAL build / probe / pop_match / full_probe / clear against the "
            "HalfJoinState contract in executable form",
    "instantiation": "Key = ValBuild = ValProbe = u8 over a 2 x 2 domain",
    "bounded": {r".*": "one built pair + one probe (hit / miss); two values built under one key (return value of build, len, full_probe)"},
    "trusted": ["contracts/kani/vk_join/shims/rustc_hash: CONTRACT DOUBLE of rustc_hash::FxHashMap and std::collections::hash_map::{Entry, Iter} "
                "(insertion-ordered association list); the real hashbrown table is outside CBMC's reach beyond one entry",
                "contracts/kani/vk_join/shims/smallvec: CONTRACT DOUBLE of smallvec::SmallVec (a Vec with push / Deref to slice); the real inline/spill "
                "storage makes a second value under one key intractable for CBMC"],
}

KANI_UNITS["ov_join"] = {
    "mode": "overlay", "crate": "contracts/kani/ov_join", "package": "dfir_pipes", "prefix": "dfir_pipes/src", "props": ["C13"],
    "what": "the real HalfSetJoinState / HalfMultisetJoinState (FxHashMap + SmallVec + VecDeque) with ONE built pair, concrete keys, symbolic values",
    "instantiation": "Key = ValBuild = ValProbe = u8",
    "bounded": {r".*": "one built pair (hashbrown is within CBMC's reach for a single entry only)"},
}

KANI_UNITS["ov_sink"] = {
    "mode": "overlay", "crate": "contracts/kani/ov_sink", "package": "sinktools", "prefix": "sinktools/src", "props": ["C14"],
    "what": "sinktools compiled in place; harness child modules appended to each adaptor's file; havoc downstream sinks (incl. errors)",
    "instantiation": "Item = u8, havoc sinks answering Ready(Ok)/Pending/Ready(Err) on every poll; loop-free per-method contracts => complete for the instantiation",
    "bounded": {r"_loop$": "internal loop unwound: <= 3 buffered / iterator items"},
}

KANI_UNITS["vk_mpsc"] = {
    "mode": "dep", "crate": "contracts/kani/vk_mpsc", "props": ["C16"],
    "gen": [("src/mpsc.rs.in", "src/mpsc.rs")],
    "what": "dfir_rs/src/util/unsync/mpsc.rs extracted verbatim (whole file); per-call contracts and bounded histories with counting wakers",
    "instantiation": "u8 items, capacity <= 2, <= 2 sender tasks",
    "bounded": {r".*": "capacity <= 2, queue length <= 2, histories of <= 8 calls"},
}

KANI_UNITS["vk_uf"] = {
    "mode": "dep", "crate": "contracts/kani/vk_uf", "props": ["C17"],
    "gen": [("src/union_find.rs.in", "src/union_find.rs")],
    "what": "dfir_lang/src/union_find.rs extracted verbatim (whole file) over an array-backed contract double of slotmap::SecondaryMap; "
            "find/union/same_set (whatever their implementation) against an equivalence-closure matrix: the bounded twin of the Verus unit uf_dfir",
    "instantiation": "4 keys",
    "bounded": {r".*": "4 keys, reachable states after <= 3 unions from empty, recursion unwound 7"},
    "trusted": ["contracts/kani/vk_uf/shims/slotmap: CONTRACT DOUBLE of slotmap::{Key, SecondaryMap} (array-backed finite map over 4 keys); the real "
                "SecondaryMap is outside CBMC's reach"],
}

KANI_UNITS["vk_tomb"] = {
    "mode": "dep", "crate": "contracts/kani/vk_tomb", "props": ["C05"],
    "gen": [("src/tombstone.rs.in", "src/tombstone.rs")],
    "under_contract": r"RoaringTombstoneSet",
    "what": "lattices/src/tombstone.rs: struct RoaringTombstoneSet and all of its impls (new, contains, insert, TombstoneSet::{contains, union_with}, "
            "Extend::extend, Len::len, IntoIterator, FromIterator) spliced verbatim over a contract double of roaring::RoaringTreemap, against the "
            "TombstoneSet contract the tombstone merge harnesses assume (extend/from_iter add exactly the offered keys in any order and with "
            "re-deliveries, union_with is union and returns the old length, len is the cardinality, into_iter yields each key once)",
    "instantiation": "u64 keys from a 4-value domain spread over both 32-bit halves",
    "bounded": {r".*": "<= 2 keys present, <= 2 keys offered (havoc size_hint)"},
    "trusted": ["contracts/kani/vk_tomb/shims/roaring: CONTRACT DOUBLE of roaring::RoaringTreemap (ascending array of <= 4 values; insert / remove / "
                "contains / len / min / max / push / append / extend / from_iter / | / |= / iter / into_iter as documented in roaring 0.11.4, including "
                "append's consumption of the first out-of-order value); the real treemap is outside CBMC's reach"],
}

KANI_UNITS["vk_var"] = {
    "mode": "dep", "crate": "contracts/kani/vk_var", "props": ["C10"],
    "gen": [("src/extracted.rs.in", "src/extracted.rs")],
    "under_contract": r"VariadicHashSet|VariadicCountedHashSet|DuplicateCounted",
    "trusted": ["contracts/kani/vk_var/shims/hashbrown: CONTRACT DOUBLE of hashbrown::hash_table::{HashTable, Entry, IntoIter} (insertion-ordered list searched "
                "with the caller's eq closure); the real table is outside CBMC's reach beyond one entry"],
    "what": "variadics::VariadicColumnMultiset (real crate) against a multiset-of-tuples oracle; VariadicHashSet / VariadicCountedHashSet: "
            "variadic_collections.rs extracted verbatim (one stated substitution crate:: -> variadics::) over a contract double of hashbrown::hash_table, "
            "against set / multiset oracles; the same two types on the real hashbrown table for one tuple (thorough)",
    "instantiation": "schema var_type!(u8, u8)",
    "bounded": {r"column_": "<= 3 inserted tuples (Vec columns)", r"^harness::slow_": "ONE inserted tuple, constant hasher (REAL hashbrown table)",
                r"hash_harness": "<= 3 inserted tuples over a 2 x 2 domain, hashbrown::hash_table replaced by a contract double"},
}

KANI_UNITS["vk_sim"] = {
    "mode": "dep", "crate": "contracts/kani/vk_sim", "props": ["C36"],
    "gen": [("src/sim/runtime.rs.in", "src/sim/runtime.rs"), ("src/sim/compiled.rs.in", "src/sim/compiled.rs")],
    "what": "hydro_lang/src/sim/runtime.rs extracted verbatim (whole file) and compiled.rs::run_hooks, over shims; decision and release contracts "
            "of the un-keyed hooks with a havoc bolero driver; run_hooks against the SimHook contract with havoc hooks",
    "instantiation": "u8 items, queue lengths 0..3 (one harness per concrete length); run_hooks with 0..3 havoc hooks",
    "bounded": {r".*": "queue length <= 3 / <= 3 hooks"},
    "under_contract": r"StreamHook < T , (TotalOrder|NoOrder) >|for (SingletonHook|PassthroughSingletonHook|StreamOrderHook|MergeOrderedHook"
                      r"|TopLevelStreamOrderHook|TopLevelFoldHook|TopLevelMergeOrderedHook) <|:: run_hooks$",
    "trusted": ["contracts/kani/vk_sim/shims/dfir_rs/src/util/unsync/mpsc.rs: CONTRACT DOUBLE of dfir_rs::util::unsync::mpsc (try_send on an open unbounded "
                "channel appends at the back and returns Ok); the real channel is outside CBMC's reach (C16)",
                "contracts/kani/vk_sim/shims/bolero: havoc DynDriver (any value in the requested range) behind the real bolero-generator ValueGenerator impls",
                "contracts/kani/vk_sim/src/lib.rs: marker types TotalOrder/NoOrder stand for hydro_lang::live_collections::stream's",
                "log_writer = None in every harness: the log-formatting branches of release_decision are not covered"],
}

# property -> list of (engine, unit, harness filters or None, tiers)
PROPS = {
    "C01": [("verus", "lat_ord"), ("verus", "lat_wrap"), ("verus", "lat_pair"), ("verus", "lat_dom"), ("verus", "lat_set"),
            ("kani", "vk_lat", ["::aci", "point_u8", "coll::set_aci", "coll::set_merge", "coll::map_merge_option", "coll::map_merge_singleton", "coll::map_merge_vecmap", "coll2::vec_union_merge", "coll3::tombstone_set_merge", "coll3::tombstone_set_lattice_from", "::from"], ("quick",)),
            ("kani", "vk_lat", ["::aci", "point_u8", "coll::set_aci", "coll::set_merge", "coll::map_merge", "coll2::vec_union_merge", "coll3::tombstone_set_merge", "coll3::tombstone_set_lattice_from", "::from", "coll3::tombstone_map_merge", "coll::map_aci_small", "coll::map_comm_idem", "coll2::vec_union_aci",
                                "coll2::union_find_merge"], ("thorough",))],
    "C02": [("verus", "lat_ord"), ("verus", "lat_wrap"), ("verus", "lat_pair"), ("verus", "lat_dom"), ("verus", "lat_set"),
            ("kani", "vk_lat", ["::changed", "point_u8", "coll::set_merge", "coll::map_merge_option", "coll::map_merge_singleton", "coll::map_merge_vecmap",
                                "coll2::vec_union_merge", "coll3::tombstone_set_merge", "coll3::tombstone_map_merge_one_entry", "dompair_incomparable_keys"], ("quick",)),
            ("kani", "vk_lat", ["::changed", "coll3::tombstone_set_merge", "coll3::tombstone_map_merge", "dompair_incomparable_keys", "point_u8", "coll::set_merge", "coll::map_merge", "coll2::vec_union_merge",
                                "coll2::union_find_union", "coll2::union_find_merge"], ("thorough",))],
    "C03": [("verus", "lat_ord"), ("verus", "lat_wrap"), ("verus", "lat_pair"), ("verus", "lat_dom"), ("verus", "lat_set"),
            ("kani", "vk_lat", ["::order", "::bot", "::top", "c03_withbot_unit_is_top", "c03_set_union_full_bool_is_top", "point_u8", "coll::set_cmp", "coll::set_bot_top_from",
                                "coll::map_bot_top_from", "coll::set_bot_every", "coll::map_cmp_small", "coll2::vec_union_cmp", "coll3::tombstone_set_cmp"], ("quick",)),
            ("kani", "vk_lat", ["::order", "::bot", "::top", "c03_withbot_unit_is_top", "c03_set_union_full_bool_is_top", "point_u8", "coll::set_cmp", "coll::set_bot_top_from",
                                "coll::map_bot_top_from", "coll::set_bot_every", "coll::map_cmp", "coll2::vec_union_cmp", "coll2::union_find_cmp", "coll3::tombstone_set_cmp"], ("thorough",))],
    "C04": [("verus", "lat_ord"), ("verus", "lat_wrap"), ("verus", "lat_pair"), ("verus", "lat_dom"), ("verus", "lat_set"),
            ("kani", "vk_lat", ["::from", "::aci", "point_u8", "dompair_incomparable_keys", "coll3::tombstone_set_lattice_from", "coll3::tombstone_set_merge", "coll::set_merge", "coll::set_bot_top_from", "coll::map_merge_option",
                                "coll::map_merge_singleton", "coll::map_merge_vecmap", "coll::map_bot_top_from", "coll2::vec_union_merge", "coll2::vec_union_cmp"], ("quick",)),
            ("kani", "vk_lat", ["::from", "::aci", "point_u8", "dompair_incomparable_keys", "coll3::tombstone_set_lattice_from", "coll3::tombstone_set_merge", "coll::set_merge", "coll::set_bot_top_from", "coll::map_merge",
                                "coll::map_bot_top_from", "coll2::vec_union_merge", "coll2::vec_union_cmp", "coll2::union_find_union",
                                "coll2::union_find_merge"], ("thorough",))],
}

PROPS["C09"] = [
    ("verus", "alg_semiring"), ("verus", "alg_compose"),
    ("kani", "vk_lat", ["alg::n1", "alg::n2", "alg::c1", "alg::c2::semigroup_monoid_group_"], ("quick",)),
    ("kani", "vk_lat", ["alg::"], ("thorough",)),
]

PROPS["C15"] = [("kani", "vk_merge", ["merge_", "tagged_"], ("quick", "thorough"))]

PROPS["C11"] = [("kani", "ov_pipes", ["pull::"], ("quick", "thorough"))]

_PUSH_QUICK = ["push::%s::vk_harness" % m for m in (
    "map", "inspect", "filter", "filter_map", "fanout", "unzip", "demux_var", "flat_map", "flatten", "for_each", "persist",
    "accumulate", "sort", "vec_push", "sink", "sink_compat", "filter_map_async", "flat_map_stream", "flatten_stream", "state_push", "resolve_futures")] + ["pull::send_push", "pull::send_sink"]
# fold_keyed / reduce_keyed (real std HashMap, one key; ~100 s each) used to be thorough-only; measured: the whole push set takes ~2 min, so quick runs it too
PROPS["C12"] = [("kani", "ov_pipes", ["push::", "pull::send_push", "pull::send_sink"], ("quick", "thorough"))]

PROPS["C14"] = [("kani", "ov_sink", ["vk_harness"], ("quick", "thorough"))]

# C16 NOT registered (tool limit, DESIGN.md section 11): vk_mpsc kept for the record

PROPS["C13"] = [("kani", "ov_pipes", ["symmetric_hash_join"], ("quick", "thorough")),
                ("kani", "vk_join", ["harness::half_"], ("quick", "thorough")),
                ("kani", "ov_join", ["half_join_state"], ("thorough",))]

# C17 NOT registered: see mkmanifest NOT_APPLICABLE (vk_uf kept for reference; every harness times out at 1200 s)

PROPS["C10"] = [("kani", "vk_var", ["harness::column_", "hash_harness::hash_set_contract", "hash_harness::counted_set_contract"], ("quick",)),
                ("kani", "vk_var", ["harness::column_", "harness::slow_", "hash_harness::hash_set_contract", "hash_harness::counted_set_contract", "hash_harness::slow_"], ("thorough",))]

PROPS["C05"] = [("kani", "vk_tomb", ["harness::roaring_"], ("quick", "thorough")),
                ("kani", "vk_lat", ["coll3::tombstone_set", "coll3::tombstone_map_merge_one_entry"], ("quick",)),
                ("kani", "vk_lat", ["coll3::tombstone"], ("thorough",))]
PROPS["C06"] = [("kani", "vk_lat", ["coll3::atomize_set_union", "coll3::atomize_map_union_any_value_iterator", "coll3::atomize_with_bot_shape_none",
                                    "coll3::atomize_with_bot_any_inner_iterator", "coll3::atomize_with_top_any_inner_iterator"], ("quick",)),
                ("kani", "vk_lat", ["coll3::atomize"], ("thorough",))]
PROPS["C07"] = [("verus", "lat_pair"),
                ("kani", "vk_lat", ["coll3::cartesian_product_is_product", "coll3::keyed_bimorphism_"], ("quick",)),
                ("kani", "vk_lat", ["coll3::cartesian", "coll3::keyed_bimorphism_"], ("thorough",))]

PROPS["C17"] = [("verus", "uf_dfir"), ("kani", "vk_uf", ["harness::uf_"], ("quick", "thorough"))]

_C36_QUICK = ["harness::run_hooks", "harness::stream_", "harness::release_", "harness::singleton_", "harness::passthrough_",
              "harness::top_level_", "harness::merge_ordered_inline_0_2", "harness::merge_ordered_script_2_2"]
PROPS["C36"] = [("kani", "vk_sim", _C36_QUICK, ("quick",)),
                ("kani", "vk_sim", _C36_QUICK + ["harness::slow_", "harness::merge_ordered_script_"], ("thorough",))]

LEVEL = {
    # "proof": the deciding obligations are deductive proofs (Verus) of the real bodies, generic and unbounded; the bounded Kani complement is listed
    # separately in the claim text and in evidence.by_kind.  "other": decided by Kani harness contracts only (complete per instantiation or bounded).
    "C01": "proof", "C02": "proof", "C03": "proof", "C04": "proof", "C09": "proof", "C17": "proof", "C36": "other", "C05": "other", "C06": "other", "C07": "other", "C15": "other", "C11": "other", "C12": "other", "C14": "other", "C13": "other", "C10": "other",
}
