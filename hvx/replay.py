"""Counterexample extraction and native replay.

Kani obligation  -> rerun the harness with `--concrete-playback=inplace` on a scratch copy of the harness crate,
                    then execute the generated unit test natively (`cargo kani playback`): the failing input is
                    replayed against the real crate compiled by rustc, outside the model checker.
Verus obligation -> Verus gives no counterexample; the twin Kani harnesses of the unit (same postcondition,
                    executable form, small monomorphic instantiation) are run, and the first failing one is replayed.
"""
from __future__ import annotations

import os
import re
import shutil
import subprocess

import kani_unit
import registry

VERIF = os.path.dirname(os.path.dirname(os.path.abspath(__file__)))
BUILD = os.environ.get("HVX_BUILD", os.path.join(VERIF, "build"))

TWIN_GROUP = {
    "merge": ["aci", "changed"], "lattice_from": ["from"], "is_bot": ["bot", "botnd"], "is_bot_ok": ["bot", "botnd"],
    "is_top": ["top"], "is_top_ok": ["top"], "default": ["bot"], "default_bot": ["bot"], "eq": ["order"],
    "partial_cmp": ["order"],
}


_CACHE = {}


def _playback(unit: str, harness: str, timeout: int = 900):
    """Concrete playback of one failing harness: Kani prints a unit test holding the failing byte vectors; the test is
    appended to a scratch copy of the harness crate and executed natively (rustc-compiled real crate, no model checker)."""
    if (unit, harness) in _CACHE:
        return _CACHE[(unit, harness)]
    _CACHE[(unit, harness)] = None
    u = registry.KANI_UNITS[unit]
    if u["mode"] == "overlay":
        res = _playback_overlay(unit, u, harness, timeout)
        _CACHE[(unit, harness)] = res
        return res
    src = os.path.join(BUILD, "kani", unit)
    env = dict(os.environ, CARGO_NET_OFFLINE="true")
    cmd = ["cargo", "kani", "-Z", "function-contracts", "-Z", "stubbing", "-Z", "concrete-playback", "--concrete-playback=print",
           "--harness", harness, "--exact"]
    r = subprocess.run(cmd, cwd=src, env=env, capture_output=True, text=True, timeout=timeout)
    out = r.stdout + r.stderr
    tests = re.findall(r"#\[test\]\s*\nfn (kani_concrete_playback_\w+)\(\) \{(.*?)\n\}", out, re.S)
    if not tests:
        return None
    name, body = tests[0]
    body = re.sub(r"concrete_playback_run\(concrete_vals, \w+\)", f"concrete_playback_run(concrete_vals, crate::{harness})", body)
    test_src = f"#[test]\nfn {name}() {{{body}\n}}\n"
    dst = os.path.join(BUILD, "kani", unit + "-replay")
    os.makedirs(dst, exist_ok=True)
    for ent in os.listdir(src):          # whole crate (incl. local shim crates), build output excluded; the replay copy keeps its own target/
        if ent == "target":
            continue
        a, b = os.path.join(src, ent), os.path.join(dst, ent)
        if os.path.isdir(a):
            shutil.rmtree(b, ignore_errors=True)
            shutil.copytree(a, b)
        else:
            shutil.copyfile(a, b)
    with open(os.path.join(dst, "src", "lib.rs"), "a") as f:
        f.write("\n#[cfg(kani)]\nmod hvx_playback {\n" + test_src + "}\n")
    r2 = subprocess.run(["cargo", "kani", "playback", "-Z", "concrete-playback", "--", name], cwd=dst,
                        env=env, capture_output=True, text=True, timeout=timeout)
    native = r2.stdout + r2.stderr
    failed_natively = bool(re.search(r"test result: FAILED", native))
    if not failed_natively:
        return None
    keep = "\n".join(ln for ln in native.split("\n") if re.search(r"panicked|Failed|FAILED|failures|assert|test hvx|running", ln))[-2500:]
    res = {"text": f"harness: {harness}\nKani concrete playback test (byte vectors = the symbolic inputs in declaration order):\n"
                   f"{test_src}\n--- native execution against the real crate (cargo kani playback, rustc-compiled) ---\n{keep}\n"}
    _CACHE[(unit, harness)] = res
    return res


def _playback_overlay(unit, u, harness, timeout):
    """Overlay units: the playback test is appended (as a sibling child module) to the file that holds the harness, inside
    the overlay copy of the working tree, and run natively with `cargo kani playback -p <package>`."""
    root = os.path.join(BUILD, "overlay", unit)
    env = dict(os.environ, CARGO_NET_OFFLINE="true")
    cmd = ["cargo", "kani", "-p", u["package"], "-Z", "function-contracts", "-Z", "stubbing", "-Z", "concrete-playback",
           "--concrete-playback=print", "--harness", harness, "--exact"]
    r = subprocess.run(cmd, cwd=root, env=env, capture_output=True, text=True, timeout=timeout)
    out = r.stdout + r.stderr
    tests = re.findall(r"#\[test\]\s*\nfn (kani_concrete_playback_\w+)\(\) \{(.*?)\n\}", out, re.S)
    if not tests:
        return None
    name, body = tests[0]
    segs = harness.split("::")
    modpath, hmod, hfn = segs[:-2], segs[-2], segs[-1]
    body = re.sub(r"concrete_playback_run\(concrete_vals, \w+\)", f"concrete_playback_run(concrete_vals, super::{hmod}::{hfn})", body)
    test_src = f"#[test]\nfn {name}() {{{body}\n}}\n"
    base = os.path.join(root, u["prefix"], *modpath)
    f = base + ".rs" if os.path.exists(base + ".rs") else os.path.join(base, "mod.rs")
    if not os.path.exists(f):
        return None
    with open(f, "a") as fh:
        fh.write(f"\n#[cfg(kani)]\nmod hvx_{name} {{\nextern crate std;\nuse std::prelude::v1::*;\nuse std::vec;\n" + test_src + "}\n")
    r2 = subprocess.run(["cargo", "kani", "playback", "-p", u["package"], "-Z", "concrete-playback", "--", name], cwd=root,
                        env=env, capture_output=True, text=True, timeout=timeout)
    native = r2.stdout + r2.stderr
    if not re.search(r"test result: FAILED", native):
        return None
    keep = "\n".join(ln for ln in native.split("\n") if re.search(r"panicked|Failed|FAILED|failures|assert|test .*hvx|running", ln))[-2500:]
    return {"text": f"harness: {harness}\nKani concrete playback test (byte vectors = the symbolic inputs in declaration order):\n"
                    f"{test_src}\n--- native execution against the real crate (overlay copy of the working tree; cargo kani playback) ---\n{keep}\n"}


def counterexample(o, c, pid):
    if o["engine"].startswith("kani"):
        return _playback(o["unit"], o["function"])
    # Verus: run twins
    vu = registry.VERUS_UNITS.get(o["unit"], {})
    groups = TWIN_GROUP.get(o["short"], [])
    twins = vu.get("twins", [])
    if not groups or not twins:
        return None
    filters = []
    for t in twins:
        if t.endswith("::"):
            filters += [t + g for g in groups]
        else:
            filters.append(t)
    unit = "vk_lat"
    dst = os.path.join(BUILD, "kani", unit)
    kani_unit._sync_crate(os.path.join(VERIF, registry.KANI_UNITS[unit]["crate"]), dst)
    r = kani_unit.run_kani(dst, filters, jobs=8, timeout=900)
    for hn, h in sorted(r["harnesses"].items()):
        if h["status"] == "FAILED" and any(kani_unit.classify_failed(f["desc"]) != "undecided" for f in h["failed"]):
            cx = _playback(unit, hn)
            if cx:
                cx["text"] = f"twin of {o['function']} (same postcondition, executable form):\n" + cx["text"]
                return cx
    return None
